"""C03 - Key exchange binds the whole negotiation; no silent downgrade.

An on-path MITM on the in-memory wire edits cleartext handshake messages of an
asyncssh<->asyncssh connection before NEWKEYS.  The MITM knows exactly which
delivered bytes differ from the sent bytes and classifies the edit:
  covered   : any payload byte of KEXINIT / KEX* messages, any version-string
              character (RFC 4253: V_C, V_S, I_C, I_S, K_S, e, f / Q_C, Q_S,
              group and request parameters all enter H, the signature is over
              H)  =>  connect() must fail and the server must lose the
              connection; it must never complete.
  uncovered : CR before LF, packet padding bytes / padding length, an extra
              banner line before the server version  =>  either outcome, but
              if it completes both ends must hold the same session id and
              the algorithms both report must equal the reference first-match
              negotiation on the KEXINITs as delivered.
Negotiation leg: random client/server preference lists; result must equal the
independent first-match function; disjoint lists must fail.
"""

import asyncio
import hashlib
import os
import random

from .. import import_asyncssh, apps, scen, vloop, tap as tapmod, refssh as R
from ..wire import C2S, S2C

asyncssh = import_asyncssh()

from asyncssh.encryption import get_encryption_algs      # noqa: E402
from asyncssh.mac import get_mac_algs                    # noqa: E402
from asyncssh.kex import get_kex_algs                    # noqa: E402
from asyncssh.compression import get_compression_algs    # noqa: E402

ID = 'C03'
LEVEL = 'fault_enumeration'
RULE = ('fault space = kex method (all non-GSS) x edit {version char / CR / '
        'banner; KEXINIT field edits on each of the 10 name-lists (reverse, '
        'drop first/last, add, duplicate), cookie, first_kex_follows, '
        'reserved; byte flip at a position of every KEX* message of either '
        'direction; e/f/Q range and invalid-point values; host key swapped '
        'for another (trusted or untrusted) key; padding edits}; plus random '
        'preference-list pairs for the negotiation oracle; non-trivial = the '
        'edit changed delivered bytes (or lists were generated) and the '
        'oracle evaluated; distinct = distinct (kex, edit) tuples')
ASSUMPTIONS = ['covered/uncovered classification follows RFC 4253 7-8, '
               'RFC 4419, RFC 5656, RFC 8731 and the ML-KEM hybrid draft',
               'session ids are read from the arguments of send_newkeys']
OUT_OF_REACH = ['GSS key exchange']
REQUIRED = ['covered_edits', 'covered_rejected', 'uncovered_edits',
            'uncovered_completed_agree', 'negotiation_pairs',
            'negotiation_agree', 'disjoint_rejected', 'range_edits',
            'hostkey_choices',
            'hostkey_swaps', 'impostor_cases',
            'impostor_controls_completed']
BUDGET_S = {'quick': 300, 'thorough': 3400}
CASE_TIMEOUT_S = 60

LIST_EDITS = ['reverse', 'drop_first', 'drop_last', 'add_bogus', 'dup_first']


def _kexes():
    return [k.decode() for k in get_kex_algs() if not k.startswith(b'gss')]


def gen_cases(tier, seed):
    rng = random.Random(f'c03-{seed}')
    cases = []
    kexes = _kexes()

    def add(kex, edit, **kw):
        cases.append(dict(kind='edit', kex=kex, edit=edit,
                          chunk=rng.choice(['all', 'one', 'random',
                                            'record']),
                          cseed=rng.randrange(1 << 30), **kw))

    structured = []
    for d in (C2S, S2C):
        for vk in ('char', 'strip_cr', 'prefix', 'trail_space', 'trail_tab',
                   'trail_ws', 'double_cr', 'add_comment', 'cut_tail',
                   'case'):
            structured.append(['version', d, vk])
        for f in range(10):
            for le in LIST_EDITS:
                structured.append(['kexinit_list', d, f, le])
        for x in ('cookie', 'follows', 'reserved', 'append1', 'append16'):
            structured.append(['kexinit_misc', d, x])
        structured.append(['kexmsg_append', d, 1])
        structured.append(['kexmsg_append', d, 8])
        structured.append(['padding', d, 'kexinit'])
        structured.append(['padding', d, 'kexmsg'])
        structured.append(['padlen', d, 'kexinit'])
    structured.append(['banner', S2C, ''])
    structured.append(['hostkey_swap', S2C, 'trusted'])
    structured.append(['hostkey_swap', S2C, 'untrusted'])
    # the same host key in a different byte encoding (K_S is hashed as sent)
    for v in ('e_pad', 'n_pad', 'both_pad', 'trailing'):
        structured.append(['hostkey_reencode', S2C, v])
    for v in ('zero', 'one', 'pm1', 'p', 'pp1', 'empty', 'short', 'long',
              'allzero', 'allff', 'strip0', 'strip0', 'strip0', 'pad0'):
        structured.append(['range', C2S, v])
        structured.append(['range', S2C, v])

    slow = {'diffie-hellman-group17-sha512', 'diffie-hellman-group18-sha512',
            'diffie-hellman-group18-sha512@ssh.com',
            'diffie-hellman-group16-sha512',
            'diffie-hellman-group16-sha384@ssh.com',
            'diffie-hellman-group16-sha512@ssh.com'}

    for kex in kexes:
        if tier == 'quick':
            n = 12 if kex in slow else 40
            picks = rng.sample(structured, n)
            flips = 8 if kex in slow else 30
        else:
            picks = structured
            flips = 60 if kex in slow else 300
        for e in picks:
            add(kex, e)
        for _ in range(flips):
            add(kex, ['flip', rng.choice([C2S, S2C]),
                      rng.choice(['kexinit', 'kexmsg', 'kexmsg', 'kexmsg']),
                      rng.random(), rng.randrange(8), rng.randrange(4)])

    if tier == 'thorough':
        # every byte position of every cleartext handshake message for 5
        # representative methods
        for kex in ('curve25519-sha256', 'ecdh-sha2-nistp256',
                    'diffie-hellman-group14-sha256',
                    'diffie-hellman-group-exchange-sha256',
                    'mlkem768x25519-sha256'):
            for d in (C2S, S2C):
                for which in range(4):
                    for pos in range(0, 2600):
                        add(kex, ['flip_at', d, which, pos,
                                  rng.randrange(8)])

    npairs = 500 if tier == 'quick' else 20000
    encs = [e.decode() for e in get_encryption_algs()]
    macs = [m.decode() for m in get_mac_algs()]
    cmps = [c.decode() for c in get_compression_algs()]
    fast = [k for k in kexes if k not in slow and 'group15' not in k]

    def sub(lst, lo=1):
        k = rng.randint(lo, min(len(lst), 5))
        return rng.sample(lst, k)

    for _ in range(npairs):
        disjoint = rng.random() < 0.15
        # both sides draw from a small common pool so that most pairs
        # intersect and the first-match rule has something to decide
        pk, pe, pm = (rng.sample(fast, 5), rng.sample(encs, 5),
                      rng.sample(macs, 5))
        c = dict(kex=sub(pk, 2), enc=sub(pe, 2), mac=sub(pm, 2),
                 cmp=sub(cmps))
        s = dict(kex=sub(pk, 3), enc=sub(pe, 3), mac=sub(pm, 3),
                 cmp=sub(cmps, 2))
        if disjoint:
            which = rng.choice(['kex', 'enc', 'cmp'])
            s[which] = [x for x in s[which] if x not in c[which]]
            if not s[which]:
                pool = {'kex': fast, 'enc': encs, 'cmp': cmps}[which]
                c[which] = c[which][:1]
                s[which] = [x for x in pool if x not in c[which]][:2]
        # host keys: the server holds 1..3 keys in some order, the client
        # ranks the signature algorithms in its own order
        hk_types = ['ssh-ed25519', 'ecdsa-sha2-nistp256', 'ssh-rsa']
        s['hostkeys'] = rng.sample(hk_types, rng.randint(1, 3))
        hk_algs = ['ssh-ed25519', 'ecdsa-sha2-nistp256', 'rsa-sha2-256',
                   'rsa-sha2-512', 'ssh-rsa']
        c['hk_algs'] = rng.sample(hk_algs, rng.randint(1, 5)) \
            if rng.random() < 0.8 else None
        cases.append(dict(kind='neg', client=c, server=s,
                          chunk=rng.choice(['all', 'random']),
                          cseed=rng.randrange(1 << 30)))
    # RSA key exchange: the transient key in another encoding
    for kex in kexes:
        if kex.startswith('rsa'):
            for v in ('e_pad', 'n_pad', 'both_pad', 'trailing'):
                for ch in ('all', 'record'):
                    cases.append(dict(kind='edit', kex=kex,
                                      edit=['kt_reencode', S2C, v],
                                      chunk=ch, cseed=31))

    # an active impostor: a server holding another key (plain, or wrapped in
    # a host certificate by a CA nobody trusts) against every shape of client
    # trust data that does not cover it; plus controls that must complete
    for imp in ('plain', 'cert_unknown_ca', 'cert_unknown_ca_expired',
                'cert_user_type', 'genuine_plain', 'genuine_cert'):
        for trust in ('pinned', 'pinned_other_ca', 'pinned_revoked_ca',
                      'empty', 'other_host_only', 'ca_only'):
            for algs in ('default', 'cert_first', 'plain_first'):
                cases.append(dict(kind='impostor', imp=imp, trust=trust,
                                  algs=algs,
                                  kex=fast[len(cases) % len(fast)],
                                  chunk='all', cseed=len(cases)))
    return cases


def signature(case):
    if case['kind'] == 'impostor':
        return hashlib.sha1(repr(('imp', case['imp'], case['trust'],
                                  case['algs'])).encode()).hexdigest()[:16]
    if case['kind'] == 'neg':
        parts = ('neg', repr(case['client']), repr(case['server']))
    else:
        e = case['edit']
        if e[0] == 'flip':
            e = e[:3] + [round(e[3], 3)] + e[4:]
        parts = ('edit', case['kex'], repr(e))
    return hashlib.sha1(repr(parts).encode()).hexdigest()[:16]


# ------------------------------------------------------------------ MITM

def _parse_clear(rec):
    n = int.from_bytes(rec[:4], 'big')
    padlen = rec[4]
    return rec[5:4+n-padlen], rec[4+n-padlen:4+n]


def _frame(payload, padding=None, padlen=None):
    if padding is not None:
        body = bytes([len(padding)]) + payload + padding
        return R.u32(len(body)) + body
    return R.Plain().seal(0, payload, padlen=padlen)


class HandshakeMITM:
    def __init__(self, case, rng, alt_key_blob):
        self.case = case
        self.e = case['edit']
        self.rng = rng
        self.alt = alt_key_blob
        self.nk = {C2S: False, S2C: False}
        self.count = {C2S: 0, S2C: 0}      # cleartext packets seen (no ver)
        self.kexmsg_n = {C2S: 0, S2C: 0}
        self.changed = False
        self.covered = None
        self.detail = None
        self.kexinit_delivered = {}

    def __call__(self, d, idx, data):
        if self.nk[d]:
            return None
        e = self.e

        if data.startswith(b'SSH-'):
            if d == S2C and e[0] == 'banner' and not self.changed:
                self.changed, self.covered = True, False
                return [b'Welcome to this host\r\n', data]
            if e[0] == 'version' and e[1] == d and not self.changed:
                line = data.rstrip(b'\r\n')
                if e[2] == 'strip_cr':
                    new = line + b'\n'
                    self.changed, self.covered = new != data, False
                elif e[2] == 'char':
                    i = self.rng.randrange(8, len(line))
                    c = line[i]
                    nc = c + 1 if c < 0x7e else c - 1
                    new = line[:i] + bytes([nc]) + line[i+1:] + b'\r\n'
                    self.changed, self.covered = True, True
                elif e[2] in ('trail_space', 'trail_tab', 'trail_ws',
                              'double_cr', 'add_comment'):
                    # the identification string is everything up to CR LF:
                    # whitespace or text added in front of it changes V_C/V_S
                    tail = {'trail_space': b' ', 'trail_tab': b'\t',
                            'trail_ws': self.rng.choice(
                                [b'  ', b' \t ', b'\x0b', b'\x0c',
                                 b'\t\t']),
                            'double_cr': b'\r',
                            'add_comment': b' x'}[e[2]]
                    new = line + tail + b'\r\n'
                    self.changed, self.covered = True, True
                elif e[2] == 'cut_tail':
                    new = line[:-1] + b'\r\n'
                    self.changed, self.covered = len(line) > 9, True
                elif e[2] == 'case':
                    i = next((j for j in range(len(line) - 1, 7, -1)
                              if chr(line[j]).isalpha()), None)
                    if i is None:
                        return None
                    new = line[:i] + bytes([line[i] ^ 0x20]) + \
                        line[i+1:] + b'\r\n'
                    self.changed, self.covered = True, True
                else:
                    new = b'SSH-1.99-' + line[8:] + b'\r\n'
                    self.changed, self.covered = True, True
                self.detail = {'from': data, 'to': new}
                return [new]
            return None

        if len(data) < 6:
            return None
        payload, padding = _parse_clear(data)
        t = payload[0]
        self.count[d] += 1

        if t == R.MSG_NEWKEYS:
            self.nk[d] = True
            return None

        is_kexinit = t == R.MSG_KEXINIT
        is_kexmsg = R.MSG_KEX_FIRST <= t <= R.MSG_KEX_LAST
        if is_kexmsg:
            self.kexmsg_n[d] += 1
        if is_kexinit:
            self.kexinit_delivered[d] = payload

        new = None

        if e[1] == d and not self.changed:
            if e[0] == 'kexinit_list' and is_kexinit:
                new = self._edit_list(payload, e[2], e[3])
                self.covered = True
            elif e[0] == 'kexinit_misc' and is_kexinit:
                b = bytearray(payload)
                if e[2] == 'cookie':
                    b[1 + self.rng.randrange(16)] ^= 0x40
                elif e[2] == 'follows':
                    b[-5] ^= 1
                elif e[2] == 'append1':
                    b += b'\x00'
                elif e[2] == 'append16':
                    b += bytes(self.rng.randrange(256) for _ in range(16))
                else:
                    b[-1] ^= 1
                new = bytes(b)
                self.covered = True
            elif e[0] == 'padding' and ((e[2] == 'kexinit' and is_kexinit) or
                                        (e[2] == 'kexmsg' and is_kexmsg)):
                pad = bytes(x ^ 0xff for x in padding)
                self.changed, self.covered = True, False
                self.detail = {'padding_of': t}
                return [_frame(payload, padding=pad)]
            elif e[0] == 'padlen' and is_kexinit:
                self.changed, self.covered = True, False
                self.detail = {'padlen_of': t}
                return [_frame(payload, padlen=len(padding) + 8)]
            elif e[0] == 'flip' and ((e[2] == 'kexinit' and is_kexinit) or
                                     (e[2] == 'kexmsg' and is_kexmsg and
                                      self.kexmsg_n[d] - 1 == e[5] % 2)):
                pos = 1 + int(e[3] * (len(payload) - 1))
                pos = min(pos, len(payload) - 1)
                b = bytearray(payload)
                b[pos] ^= 1 << e[4]
                new = bytes(b)
                self.covered = True
                self.detail = {'type': t, 'pos': pos, 'of': len(payload)}
            elif e[0] == 'flip_at' and self.count[d] - 1 == e[2]:
                if e[3] < len(payload) and (is_kexinit or is_kexmsg):
                    b = bytearray(payload)
                    b[e[3]] ^= 1 << e[4]
                    new = bytes(b)
                    self.covered = True
                    self.detail = {'type': t, 'pos': e[3]}
            elif e[0] == 'kexmsg_append' and is_kexmsg and \
                    self.kexmsg_n[d] == 1:
                # bytes after the last field of the first KEX message
                new = payload + bytes(e[2])
                self.covered = True
                self.detail = {'appended_to': t, 'n': e[2]}
            elif e[0] == 'hostkey_swap' and is_kexmsg and d == S2C:
                new = self._swap_hostkey(payload)
                self.covered = True
            elif e[0] == 'hostkey_reencode' and is_kexmsg and d == S2C:
                new = self._reencode_hostkey(payload, e[2])
                self.covered = True
            elif e[0] == 'kt_reencode' and is_kexmsg and d == S2C:
                new = self._reencode_transient(payload, e[2])
                self.covered = True
            elif e[0] == 'range' and is_kexmsg:
                new = self._range(payload, d, e[2])
                # e / f of the finite-field methods enter the hash as
                # numbers (canonical mpint): a redundant leading zero on
                # the wire is the same number, so either outcome is fine
                self.covered = not (
                    e[2] == 'pad0' and R.kex_family(
                        self.case['kex'].encode()) in ('dh', 'gex'))

        if new is not None and new != payload:
            self.changed = True
            if is_kexinit:
                self.kexinit_delivered[d] = new
            return [_frame(new)]

        if is_kexinit:
            self.kexinit_delivered[d] = payload
        return None

    def _edit_list(self, payload, field, how):
        ki = R.parse_kexinit(payload)
        f = R.KEXINIT_FIELDS[field]
        lst = list(ki[f])
        if how == 'reverse':
            lst = lst[::-1]
        elif how == 'drop_first':
            lst = lst[1:]
        elif how == 'drop_last':
            lst = lst[:-1]
        elif how == 'add_bogus':
            lst = [b'bogus-alg@example.com'] + lst
        elif how == 'dup_first' and lst:
            lst = [lst[0]] + lst
        ki[f] = lst
        self.detail = {'field': f, 'how': how}
        return R.build_kexinit(ki, ki['cookie'], ki['first_follows'])

    def _swap_hostkey(self, payload):
        # the host key is the first string of the *reply* message
        if payload[0] not in (31, 33, 30):
            return None
        try:
            r = R.Reader(payload, 1)
            ks = r.str()
            if not ks[4:].startswith((b'ssh-', b'ecdsa', b'rsa')):
                return None
            rest = r.rest()
        except R.RefError:
            return None
        self.detail = {'swapped_hostkey_in': payload[0]}
        return payload[:1] + R.sstr(self.alt) + rest

    def _reencode_hostkey(self, payload, how):
        """Same RSA key, other bytes: redundant leading zero on e / n, or
           bytes after n inside the key blob"""

        if payload[0] not in (31, 33):
            return None
        try:
            r = R.Reader(payload, 1)
            ks = r.str()
            rest = r.rest()
            k = R.Reader(ks)
            name = k.str()
            if name != b'ssh-rsa':
                return None
            ebytes, nbytes = k.str(), k.str()
        except R.RefError:
            return None
        if how in ('e_pad', 'both_pad'):
            ebytes = b'\x00' + ebytes
        if how in ('n_pad', 'both_pad'):
            nbytes = b'\x00' + nbytes
        new_ks = R.sstr(name) + R.sstr(ebytes) + R.sstr(nbytes)
        if how == 'trailing':
            new_ks += b'\x00\x00\x00\x00'
        self.detail = {'reencoded_hostkey': how}
        return payload[:1] + R.sstr(new_ks) + rest

    def _reencode_transient(self, payload, how):
        """RSA key exchange: the server's transient key K_T (second string
           of KEXRSA_PUBKEY) as the same key in other bytes"""

        if payload[0] != 30 or \
                R.kex_family(self.case['kex'].encode()) != 'rsa':
            return None
        try:
            r = R.Reader(payload, 1)
            ks = r.str()
            kt = r.str()
            rest = r.rest()
            k = R.Reader(kt)
            name = k.str()
            ebytes, nbytes = k.str(), k.str()
        except R.RefError:
            return None
        if how in ('e_pad', 'both_pad'):
            ebytes = b'\x00' + ebytes
        if how in ('n_pad', 'both_pad'):
            nbytes = b'\x00' + nbytes
        new_kt = R.sstr(name) + R.sstr(ebytes) + R.sstr(nbytes)
        if how == 'trailing':
            new_kt += b'\x00\x00\x00\x00'
        self.detail = {'reencoded_transient_key': how}
        return payload[:1] + R.sstr(ks) + R.sstr(new_kt) + rest

    def _range(self, payload, d, which):
        """Replace the peer-chosen public value (e / f / Q_C / Q_S)"""

        t = payload[0]
        fam = R.kex_family(self.case['kex'].encode())
        try:
            r = R.Reader(payload, 1)
            if d == C2S:
                if fam == 'gex' and t != 32:
                    return None
                if fam == 'rsa':
                    if t != 31:
                        return None
                head = payload[:1]
                old = r.str()
                tail = r.rest()
            else:
                if t not in (31, 33) or (fam == 'gex' and t == 31) or \
                        fam == 'rsa':
                    return None
                ks = r.str()
                head = payload[:1] + R.sstr(ks)
                old = r.str()
                tail = r.rest()
        except R.RefError:
            return None

        n = len(old)
        p = None
        if fam in ('dh', 'gex'):
            # need the group: approximate p by the size of the value
            p = (1 << (8 * n)) - 1
        val = {'zero': b'' if fam in ('dh', 'gex') else bytes(n),
               'one': b'\x01' if fam in ('dh', 'gex') else
               bytes(n - 1) + b'\x01',
               'pm1': old[:-1] + bytes([old[-1] ^ 1]),
               'p': b'\x00' + b'\xff' * n,
               'pp1': b'\x01' + bytes(n),
               'empty': b'', 'short': old[:-1], 'long': old + b'\x00',
               'allzero': bytes(n), 'allff': b'\xff' * n,
               # the same number in another encoding: mpint sign byte
               # removed (then negative per RFC 4251) or a redundant one
               # added - either way not the bytes that were hashed
               'strip0': old[1:] if old[:1] == b'\x00' else old,
               'pad0': b'\x00' + old}[which]
        if val == old:
            return None
        self.detail = {'public_value': which, 'len': n, 'type': t}
        return head + R.sstr(val) + tail


# ------------------------------------------------------------------ runs

def _run_edit(case, mon, viol):
    rng = random.Random(case['cseed'])
    info = {}

    async def main(loop):
        hk = apps.host_key('ssh-ed25519', 0)
        if case['edit'][0] == 'hostkey_reencode':
            hk = apps.host_key('ssh-rsa', 0, key_size=2048)
        alt = apps.host_key('ssh-ed25519', 1)
        trusted = [hk.export_public_key().decode()]
        if case['edit'][0] == 'hostkey_swap' and case['edit'][2] == 'trusted':
            trusted.append(alt.export_public_key().decode())
        kh = asyncssh.import_known_hosts(
            ''.join(f'testhost {k}' for k in trusted))
        owners = {}

        def mk_srv():
            owners['server'] = apps.RecServer(apps.EventLog())
            return owners['server']

        async with scen.Env(loop, server_factory=mk_srv,
                            chunking=case['chunk'], seed=case['cseed'],
                            host_keys=[hk],
                            server_opts=dict(kex_algs=[case['kex']])) as env:
            t = tapmod.Tap(env.wire)
            m = HandshakeMITM(case, rng, alt.public_data)
            env.wire.mitm = m
            try:
                ct = asyncio.ensure_future(env.connect(
                    known_hosts=kh, kex_algs=[case['kex']]))
                env.san.harness_tasks.add(ct)
                await env.settle()
                stalled = False
                if not ct.done():
                    stalled = True
                    if env.wire.links:
                        env.wire.links[0].cut('both')
                    await env.settle()
                if not ct.done():
                    ct.cancel()
                res = (await asyncio.gather(ct, return_exceptions=True))[0]
                completed = not isinstance(res, BaseException)
                info.update(changed=m.changed, covered=m.covered,
                            detail=m.detail, completed=completed,
                            stalled=stalled,
                            error=None if completed else repr(res)[:120])

                if not m.changed:
                    if not completed:
                        viol.append({'mechanism': 'unedited_handshake_failed',
                                     'detail': repr(res)})
                    return

                link = env.wire.links[0]
                if m.covered:
                    mon['covered_edits'] += 1
                    if case['edit'][0] == 'range':
                        mon['range_edits'] += 1
                    if case['edit'][0] == 'hostkey_swap':
                        mon['hostkey_swaps'] += 1
                    if completed:
                        viol.append({
                            'mechanism': 'handshake_completed_after_covered_'
                                         'edit',
                            'detail': f'kex={case["kex"]} edit='
                                      f'{case["edit"]} {m.detail}'})
                    else:
                        mon['covered_rejected'] += 1
                        await env.settle()
                        if not link.server.is_closed():
                            viol.append({'mechanism': 'server_still_open',
                                         'detail': str(case['edit'])})
                        so = owners.get('server')
                        if so is not None and so.lost and \
                                so.lost_exc is None and not stalled:
                            viol.append({'mechanism': 'server_clean_close',
                                         'detail': str(case['edit'])})
                else:
                    mon['uncovered_edits'] += 1
                    if completed:
                        conn = res
                        caps_c = tapmod._captures.get(id(link.client), [])
                        caps_s = tapmod._captures.get(id(link.server), [])
                        if not caps_c or not caps_s or \
                                caps_c[0][1] != caps_s[0][1]:
                            viol.append({'mechanism': 'session_id_mismatch',
                                         'detail': str(case['edit'])})
                        else:
                            mon['uncovered_completed_agree'] += 1
                        _check_negotiation(conn, link, m, viol)
                        conn.abort()
                await env.settle()
                for ev in env.san.drain():
                    viol.append({'mechanism': 'sanitizer_' + ev['kind'],
                                 'detail': ev})
            finally:
                t.close()

    scen.run(main)
    return info


def _check_negotiation(conn, link, m, viol):
    """Both ends' reported algorithms == reference first-match on the
       KEXINITs as delivered"""

    try:
        ci = R.parse_kexinit(m.kexinit_delivered[C2S])
        si = R.parse_kexinit(m.kexinit_delivered[S2C])
        neg = R.negotiate(ci, si)
    except (KeyError, R.RefError) as exc:
        viol.append({'mechanism': 'negotiation_oracle_failed',
                     'detail': repr(exc)})
        return
    want = {'send_cipher': neg['enc_cs'], 'recv_cipher': neg['enc_sc'],
            'send_compression': neg['cmp_cs'],
            'recv_compression': neg['cmp_sc']}
    if neg['mac_cs']:
        want['send_mac'] = neg['mac_cs']
    if neg['mac_sc']:
        want['recv_mac'] = neg['mac_sc']
    for k, v in want.items():
        got = conn.get_extra_info(k)
        if got != v.decode():
            viol.append({'mechanism': 'negotiation_not_first_match',
                         'detail': f'client {k}={got}, reference {v}'})
    flip = {'send': 'recv', 'recv': 'send'}
    for k, v in want.items():
        side, what = k.split('_')
        got = link.server.get_extra_info(f'{flip[side]}_{what}')
        if got != v.decode():
            viol.append({'mechanism': 'negotiation_not_first_match',
                         'detail': f'server {flip[side]}_{what}={got}, '
                                   f'reference {v}'})


def _run_neg(case, mon, viol):
    info = {}

    async def main(loop):
        c, s = case['client'], case['server']
        opts_s = dict(kex_algs=s['kex'], encryption_algs=s['enc'],
                      mac_algs=s['mac'], compression_algs=s['cmp'])
        opts_c = dict(kex_algs=c['kex'], encryption_algs=c['enc'],
                      mac_algs=c['mac'], compression_algs=c['cmp'])
        if c.get('hk_algs'):
            opts_c['server_host_key_algs'] = c['hk_algs']
        hkeys = [apps.host_key(t, 3, **({'key_size': 2048}
                                        if t == 'ssh-rsa' else {}))
                 for t in s.get('hostkeys', ['ssh-ed25519'])]
        async with scen.Env(loop, server_factory=lambda: apps.RecServer(
                apps.EventLog()), chunking=case['chunk'], seed=case['cseed'],
                server_opts=opts_s, host_keys=hkeys) as env:
            t = tapmod.Tap(env.wire)
            m = HandshakeMITM({'edit': ['none', None], 'kex': ''},
                              random.Random(0), b'')
            env.wire.mitm = m
            try:
                mon['negotiation_pairs'] += 1
                # reference expectation from the configured lists
                def fm(a, b):
                    return next((x for x in a if x in b), None)
                kex = fm(c['kex'], s['kex'])
                enc = fm(c['enc'], s['enc'])
                cmp_ = fm(c['cmp'], s['cmp'])
                mac = fm(c['mac'], s['mac'])
                aead = enc is not None and enc.encode() in R.AEAD
                fam = {'rsa-sha2-256': 'ssh-rsa', 'rsa-sha2-512': 'ssh-rsa'}
                hk = True
                if c.get('hk_algs'):
                    hk = next((a for a in c['hk_algs']
                               if fam.get(a, a) in s['hostkeys']), None)
                expect_ok = bool(kex and enc and cmp_ and (mac or aead) and
                                 hk)
                ct = asyncio.ensure_future(env.connect(**opts_c))
                env.san.harness_tasks.add(ct)
                await env.settle()
                if not ct.done():
                    ct.cancel()
                res = (await asyncio.gather(ct, return_exceptions=True))[0]
                completed = not isinstance(res, BaseException)
                info.update(expect_ok=expect_ok, completed=completed,
                            kex=kex, enc=enc)
                if completed != expect_ok:
                    viol.append({'mechanism': 'negotiation_outcome',
                                 'detail': f'expected success={expect_ok}, '
                                           f'got {res!r:.100}; client={c} '
                                           f'server={s}'})
                elif not completed:
                    mon['disjoint_rejected'] += 1
                    # (ConnectionLost: the peer's DISCONNECT was still in
                    # flight when it aborted its transport - the handshake
                    # failed, which is all the property asks)
                    if type(res).__name__ not in ('KeyExchangeFailed',
                                                  'ConnectionLost'):
                        viol.append({'mechanism': 'negotiation_error_class',
                                     'detail': repr(res)})
                else:
                    link = env.wire.links[0]
                    before = len(viol)
                    _check_negotiation(res, link, m, viol)
                    lt = t[0]
                    if lt.neg_history and \
                            lt.neg_history[0]['kex'].decode() != kex:
                        viol.append({'mechanism':
                                     'negotiation_not_first_match',
                                     'detail': f'kex {lt.neg_history[0]} vs '
                                               f'{kex}'})
                    if c.get('hk_algs'):
                        mon['hostkey_choices'] += 1
                        got_t = res.get_server_host_key().get_algorithm()
                        if got_t != fam.get(hk, hk):
                            viol.append({
                                'mechanism': 'negotiation_not_first_match',
                                'detail': f'host key: server presented a '
                                          f'{got_t} key, the first client '
                                          f'preference it supports is {hk}; '
                                          f'client={c["hk_algs"]} server='
                                          f'{s["hostkeys"]}'})
                    if res.get_extra_info('send_cipher') != enc:
                        viol.append({'mechanism':
                                     'negotiation_not_first_match',
                                     'detail': f'cipher vs configured lists'})
                    for p in lt.problems:
                        if p['kind'] != 'unsupported_by_reference':
                            viol.append({'mechanism': 'tap_' + p['kind'],
                                         'detail': p})
                    if len(viol) == before:
                        mon['negotiation_agree'] += 1
                    res.abort()
                await env.settle()
                for ev in env.san.drain():
                    viol.append({'mechanism': 'sanitizer_' + ev['kind'],
                                 'detail': ev})
            finally:
                t.close()

    scen.run(main)
    return info


def _run_impostor(case, mon, viol):
    """The client has trust data for `testhost`; whoever answers holds either
       the genuine key / a certificate of the trusted CA (must complete when
       the trust data covers it) or something else (must fail)"""

    info = {}

    async def main(loop):
        genuine = apps.host_key('ssh-ed25519', 0)
        other = apps.host_key('ssh-ed25519', 1)
        ca = apps.host_key('ssh-ed25519', 5)
        rogue_ca = apps.host_key('ssh-ed25519', 6)
        imp, trust = case['imp'], case['trust']
        pub = lambda k: k.export_public_key().decode().strip()  # noqa: E731
        lines = {'pinned': [f'testhost {pub(genuine)}'],
                 'pinned_other_ca': [f'testhost {pub(genuine)}',
                                     f'@cert-authority elsewhere.example '
                                     f'{pub(rogue_ca)}'],
                 'pinned_revoked_ca': [f'testhost {pub(genuine)}',
                                       f'@revoked * {pub(rogue_ca)}'],
                 'empty': ['# nothing here'],
                 'other_host_only': [f'elsewhere.example {pub(other)}'],
                 'ca_only': [f'@cert-authority testhost {pub(ca)}']}[trust]
        kh = asyncssh.import_known_hosts('\n'.join(lines) + '\n')

        def cert(key, signer, **kw):
            return signer.generate_host_certificate(
                key, 'id', principals=['testhost'], **kw)

        if imp == 'plain':
            hk, covered = other, False
        elif imp == 'cert_unknown_ca':
            hk, covered = (other, cert(other, rogue_ca)), False
        elif imp == 'cert_unknown_ca_expired':
            hk, covered = (other, cert(other, rogue_ca, valid_after=1000,
                                       valid_before=2000)), False
        elif imp == 'cert_user_type':
            hk = (other, rogue_ca.generate_user_certificate(
                other, 'id', principals=['testhost']))
            covered = False
        elif imp == 'genuine_plain':
            hk = genuine
            covered = trust in ('pinned', 'pinned_other_ca',
                                'pinned_revoked_ca')
        else:
            # (asyncssh then offers the certificate and the plain key)
            hk = (genuine, cert(genuine, ca))
            covered = trust in ('ca_only', 'pinned', 'pinned_other_ca',
                                'pinned_revoked_ca')
        opts_c = {'kex_algs': [case['kex']]}
        if case['algs'] == 'cert_first':
            opts_c['server_host_key_algs'] = [
                'ssh-ed25519-cert-v01@openssh.com', 'ssh-ed25519']
        elif case['algs'] == 'plain_first':
            opts_c['server_host_key_algs'] = [
                'ssh-ed25519', 'ssh-ed25519-cert-v01@openssh.com']
        async with scen.Env(loop, server_factory=lambda: apps.RecServer(
                apps.EventLog()), chunking=case['chunk'], seed=case['cseed'],
                host_keys=[hk],
                server_opts=dict(kex_algs=[case['kex']])) as env:
            ct = asyncio.ensure_future(env.connect(known_hosts=kh, **opts_c))
            env.san.harness_tasks.add(ct)
            await env.settle()
            if not ct.done():
                ct.cancel()
            res = (await asyncio.gather(ct, return_exceptions=True))[0]
            completed = not isinstance(res, BaseException)
            info.update(completed=completed, covered=covered,
                        error=None if completed else repr(res)[:100])
            mon['impostor_cases'] += 1
            if completed and not covered:
                viol.append({
                    'mechanism': 'handshake_completed_with_foreign_host_key',
                    'detail': f'server presented {imp}, client trust data '
                              f'{trust}, host key algorithms {case["algs"]}'})
            elif not completed and covered and imp == 'genuine_plain' and \
                    case['algs'] == 'default':
                viol.append({'mechanism': 'genuine_host_key_refused',
                             'detail': f'{imp} {trust}: {res!r:.100}'})
            elif not completed and covered and imp == 'genuine_cert' and \
                    (case['algs'] == 'default' or
                     (trust == 'ca_only' and case['algs'] == 'cert_first')):
                viol.append({'mechanism': 'genuine_host_key_refused',
                             'detail': f'{imp} {trust}: {res!r:.100}'})
            if completed:
                mon['impostor_controls_completed'] += 1
                res.abort()
            await env.settle()
            for ev in env.san.drain():
                viol.append({'mechanism': 'sanitizer_' + ev['kind'],
                             'detail': ev})

    scen.run(main)
    return info


def run_case(case):
    mon = {k: 0 for k in REQUIRED}
    viol = []
    info = {}
    try:
        if case['kind'] == 'edit':
            info = _run_edit(case, mon, viol)
        elif case['kind'] == 'impostor':
            info = _run_impostor(case, mon, viol)
        else:
            info = _run_neg(case, mon, viol)
    except vloop.QuiescentHang as exc:
        viol.append({'mechanism': 'hang', 'detail': str(exc)})

    nontrivial = sum(mon.values()) > 0
    res = {'mon': mon, 'sig': signature(case) if nontrivial else None,
           'sample': {**{k: v for k, v in case.items() if k != 'cseed'},
                      'observed': info}}
    if viol:
        res['verdict'] = 'violated'
        res['violations'] = viol[:4]
    elif not nontrivial:
        res['verdict'] = 'skipped'
    else:
        res['verdict'] = 'held'
    return res
