"""C20 - Forwarded connections relay faithfully and only where permitted.

Real loopback TCP and UNIX sockets at both ends of every forward; the SSH
connection itself runs on the in-memory wire so that it can be cut at chosen
record boundaries.  Endpoint recorders send self-identifying payloads (one
stream id per connection and direction) with interleaved writes and drive all
orders of half-close / close / abort.  Two destinations exist in every case:
SOCKS clients pick one per connection, the other kinds use one and the second
is a decoy that must never be reached.

Oracles
 * byte streams equal at the far end, and each client connection is paired
   with exactly the destination connection that answered it (no cross-wiring)
 * whatever arrives is always a prefix of what was sent (also under close,
   abort and connection loss)
 * EOF propagates while the other direction keeps flowing (the peer sends its
   data only after it has seen the EOF)
 * closing one end closes the other
 * the permission model (server callback x authorized_keys options x
   certificate extensions x permitopen) decides whether a forward must be
   served or refused, and a refused forward never touches any destination
 * cancelling a forward releases its listening socket while the connection
   stays up
 * resource census (/proc/self/net/{tcp,tcp6,unix} listening entries owned by
   this process, socket fds in /proc/self/fd) before and after: every
   listener and relayed socket is released when its connection ends, also
   when the connection is lost between a forward request and its reply
 * sanitizer: no exception escapes into the loop, no never-awaited coroutine
"""

import asyncio
import gc
import hashlib
import os
import random
import shutil
import socket
import struct

from .. import import_asyncssh, apps, scen, vloop, openssh
from ..wire import C2S

asyncssh = import_asyncssh()

ID = 'C20'
LEVEL = 'exploration'
RULE = ('cases: (forward kind local/remote/socks4/socks4a/socks5/direct API '
        'x transport TCP/UNIX x payload sizes per direction x who half-closes '
        'first and whether the peer answers only after the EOF x early data '
        'before a delayed confirmation x permission setting x listener '
        'cancel x optional cut of the SSH connection at a record boundary); '
        'non-trivial = at least one relayed stream was compared or a '
        'permission decision was judged; distinct = distinct parameter '
        'signatures')
ASSUMPTIONS = ['kernel timing is not controllable: quiescence is declared '
               'after three quiet 5 ms polls of the real sockets',
               'TIME_WAIT sockets are not counted as open',
               'a graceful close() of a TCP socket after write() is expected '
               'to deliver a prefix only (the property does not promise '
               'delivery of data written just before close)']
OUT_OF_REACH = ['TUN/TAP devices (needs /dev/net/tun)',
                'X11 forwarding (no X server)',
                'kernel-level backpressure timing']
REQUIRED = ['forwards', 'streams_compared', 'bytes_compared',
            'half_close_checked', 'ordered_half_close_checked',
            'close_propagation_checked', 'permission_decisions',
            'refusals_judged', 'census_checked', 'cut_cases', 'socks_cases',
            'unix_cases', 'early_data_cases', 'pairings_checked',
            'cancel_checked', 'decoy_checked', 'hostile_socks',
            'extra_listeners', 'implicit_release_cases', 'socks_pipelined']
BUDGET_S = {'quick': 300, 'thorough': 3400}
CASE_TIMEOUT_S = 60

KINDS = ['local', 'local', 'remote', 'remote', 'socks5', 'socks4', 'socks4a',
         'local_unix', 'remote_unix', 'local_port_to_path',
         'local_path_to_port', 'open_connection', 'open_unix_connection']
PERMS = ['allow', 'allow', 'allow', 'allow', 'deny_callback',
         'no_port_forwarding', 'permitopen_ok', 'permitopen_wild_port',
         'permitopen_other_port', 'permitopen_other_host',
         'permitopen_other_host_wild', 'permitopen_multi_other', 'cert_pf',
         'cert_no_pf', 'cert_no_pf_key_ok', 'cert_nothing']
UNIX_DEST = ('local_unix', 'remote_unix', 'local_port_to_path',
             'open_unix_connection')
UNIX_LISTEN = ('local_unix', 'remote_unix', 'local_path_to_port')
DIRECT_API = ('open_connection', 'open_unix_connection')


def gen_cases(tier, seed):
    rng = random.Random(f'c20-{seed}')
    n = 1500 if tier == 'quick' else 14000
    cases = []
    # deterministic regression probes
    for kind in ('remote', 'remote_unix'):
        cases.append({'kind': kind, 'perm': 'allow', 'up': 100, 'down': 100,
                      'pieces': 1, 'first_eof': 'client',
                      'order': 'concurrent', 'gate': 0, 'cut': 'before_reply',
                      'cut_mode': 's2c', 'nconn': 1, 'cancel': False,
                      'nlisten': 1, 'explicit_close': False,
                      'chunk': 'all', 'socks_bad': None,
                      'socks_pipe': False, 'cseed': 1})
    # a reader that starts only when everything upstream of it is full
    # (socket buffers, the channel's send buffer, the whole SSH window): flow
    # control has to hold the stream back, not break it
    for kind in ('local', 'remote', 'socks5', 'local_unix', 'open_connection'):
        for slow, up, down in (('client', 100, 7000000),
                               ('dest', 7000000, 100)):
            cases.append({'kind': kind, 'perm': 'allow', 'up': up,
                          'down': down, 'pieces': 1, 'first_eof': 'client'
                          if slow == 'dest' else 'dest',
                          'order': 'concurrent', 'gate': 0, 'cut': None,
                          'cut_mode': 'both', 'nconn': 1, 'cancel': False,
                          'nlisten': 1, 'explicit_close': False,
                          'chunk': 'all', 'socks_bad': None,
                          'socks_pipe': False, 'slow': slow, 'cseed': 2})
    while len(cases) < n:
        kind = rng.choice(KINDS)
        case = {
            'kind': kind, 'perm': rng.choice(PERMS),
            'up': rng.choice([0, 1, 100, 70000, 300000, 300000, 1500000]),
            'down': rng.choice([0, 1, 100, 70000, 300000, 300000, 1500000]),
            'pieces': rng.choice([1, 3, 10]),
            'first_eof': rng.choice(['client', 'client', 'dest', 'dest',
                                     'client_close', 'dest_close',
                                     'client_abort']),
            'order': rng.choice(['concurrent', 'after_peer_eof']),
            'gate': rng.choice([0, 0, 1.0]),
            'cut': rng.choice([None, None, None, None, 'during',
                               'before_reply', 'idle']),
            'cut_mode': rng.choice(['both', 'c2s', 's2c']),
            'nconn': rng.choice([1, 1, 2, 4]),
            'cancel': rng.random() < 0.25,
            'nlisten': rng.choice([1, 1, 2, 3]),
            'explicit_close': rng.random() < 0.3,
            'chunk': rng.choice(['all', 'record', 'random']),
            'socks_bad': None,
            # the SOCKS client does not wait for the reply before it sends
            # its payload (request and data in one write)
            'socks_pipe': rng.random() < 0.4,
            'cseed': rng.randrange(1 << 30)}
        if kind.startswith('socks') and rng.random() < 0.25:
            case['socks_bad'] = rng.choice(
                ['version', 'truncated', 'bad_cmd', 'bad_atyp', 'no_methods',
                 'long_name', 'garbage'])
        cases.append(case)
    return cases


def signature(case):
    parts = tuple(sorted((k, repr(v)) for k, v in case.items()
                         if k not in ('cseed', '_i')))
    return hashlib.sha1(repr(parts).encode()).hexdigest()[:16]


def _short(case):
    return {k: v for k, v in case.items() if k != 'cseed'}


# ------------------------------------------------------------------ census

def _listening():
    out = set()
    for f in ('/proc/self/net/tcp', '/proc/self/net/tcp6'):
        try:
            with open(f) as fh:
                for line in fh.readlines()[1:]:
                    p = line.split()
                    if p[3] == '0A':
                        out.add((os.path.basename(f), p[1], p[9]))
        except OSError:
            pass
    try:
        with open('/proc/self/net/unix') as fh:
            for line in fh.readlines()[1:]:
                p = line.split()
                # Flags 00010000 = __SO_ACCEPTCON (listening)
                if len(p) >= 7 and p[3] == '00010000':
                    out.add(('unix', p[7] if len(p) > 7 else '', p[6]))
    except OSError:
        pass
    return out


def _my_inodes():
    ino = set()
    for fd in os.listdir('/proc/self/fd'):
        try:
            t = os.readlink(f'/proc/self/fd/{fd}')
        except OSError:
            continue
        if t.startswith('socket:['):
            ino.add(t[8:-1])
    return ino


def census():
    mine = _my_inodes()
    return {'listen': {x for x in _listening() if x[2] in mine},
            'sockets': len(mine)}


# ------------------------------------------------------------------ endpoints

def _up(case, i):
    return apps.stream_bytes(('up', case['cseed'], i), case['up'])


def _down(case, name, k):
    return apps.stream_bytes(('down', case['cseed'], name, k), case['down'])


async def _write_pieces(writer, data, pieces):
    step = max(1, len(data) // pieces)
    for j in range(0, len(data), step):
        writer.write(data[j:j+step])
        await writer.drain()


async def _read_all(reader, rec, delay=0):
    if delay:
        # (virtual time: this returns once everybody else is blocked)
        await asyncio.sleep(delay)
    while True:
        d = await reader.read(65536)
        if not d:
            break
        rec['got'] += d
    rec['eof'] = True


async def _finish_reader(rt, rec):
    await asyncio.gather(rt, return_exceptions=True)
    if not rt.cancelled() and rt.exception() is not None:
        rec['error'] = repr(rt.exception())[:160]


class Dest:
    """Recording destination server (TCP or UNIX)"""

    def __init__(self, case, name):
        self.case = case
        self.name = name
        self.conns = []
        self.server = None
        self.path = None
        self.addr = None

    async def start(self, unix_path=None):
        if unix_path:
            self.path = self.addr = unix_path
            self.server = await asyncio.start_unix_server(self._handle,
                                                          unix_path)
        else:
            self.server = await asyncio.start_server(self._handle,
                                                     '127.0.0.1', 0)
            self.addr = self.server.sockets[0].getsockname()[1]
        return self.addr

    async def _handle(self, reader, writer):
        case = self.case
        k = len(self.conns)
        down = _down(case, self.name, k)
        rec = {'got': bytearray(), 'eof': False, 'closed': False,
               'writer': writer, 'sent': down, 'error': None, 'k': k}
        self.conns.append(rec)
        fe = case['first_eof']
        after = case['order'] == 'after_peer_eof'

        try:
            if fe in ('client', 'client_close', 'client_abort') and after:
                # answer only after the client's EOF was seen: the reverse
                # direction must keep flowing after a half-close
                await _read_all(reader, rec)
                await _write_pieces(writer, down, case['pieces'])
            else:
                rt = asyncio.ensure_future(_read_all(
                    reader, rec, 5 if case.get('slow') == 'dest' else 0))
                try:
                    await _write_pieces(writer, down, case['pieces'])
                    if fe == 'dest':
                        writer.write_eof()
                    elif fe == 'dest_close':
                        writer.close()
                finally:
                    await _finish_reader(rt, rec)
        except (OSError, ConnectionError) as exc:
            rec['error'] = repr(exc)

        try:
            writer.close()
        except Exception:
            pass
        rec['closed'] = True

    async def stop(self):
        for rec in self.conns:
            try:
                rec['writer'].close()
            except Exception:
                pass
        if self.server:
            self.server.close()
            await asyncio.wait_for(self.server.wait_closed(), 30)
        if self.path and os.path.exists(self.path):
            os.unlink(self.path)


def _socks_request(kind, host, port):
    """The whole client side of the SOCKS dialogue as one byte string"""

    if kind == 'socks5':
        h = host.encode()
        return b'\x05\x01\x00' + b'\x05\x01\x00\x03' + \
            bytes([len(h)]) + h + struct.pack('>H', port)
    if kind == 'socks4':
        return b'\x04\x01' + struct.pack('>H', port) + \
            socket.inet_aton('127.0.0.1') + b'user\x00'
    return b'\x04\x01' + struct.pack('>H', port) + \
        b'\x00\x00\x00\x01' + b'user\x00' + host.encode() + b'\x00'


async def _socks_replies(reader, kind):
    if kind == 'socks5':
        if await reader.readexactly(2) != b'\x05\x00':
            return False
        r = await reader.readexactly(4)
        if r[1] != 0:
            return False
        if r[3] == 1:
            await reader.readexactly(6)
        elif r[3] == 4:
            await reader.readexactly(18)
        else:
            n = (await reader.readexactly(1))[0]
            await reader.readexactly(n + 2)
        return True
    r = await reader.readexactly(8)
    return r[1] == 0x5a


async def _socks_handshake(reader, writer, kind, host, port):
    if kind == 'socks5':
        writer.write(b'\x05\x01\x00')
        r = await reader.readexactly(2)
        if r != b'\x05\x00':
            return False
        h = host.encode()
        writer.write(b'\x05\x01\x00\x03' + bytes([len(h)]) + h +
                     struct.pack('>H', port))
        r = await reader.readexactly(4)
        if r[1] != 0:
            return False
        if r[3] == 1:
            await reader.readexactly(6)
        elif r[3] == 4:
            await reader.readexactly(18)
        else:
            n = (await reader.readexactly(1))[0]
            await reader.readexactly(n + 2)
        return True
    if kind == 'socks4':
        writer.write(b'\x04\x01' + struct.pack('>H', port) +
                     socket.inet_aton('127.0.0.1') + b'user\x00')
    else:
        writer.write(b'\x04\x01' + struct.pack('>H', port) +
                     b'\x00\x00\x00\x01' + b'user\x00' + host.encode() +
                     b'\x00')
    r = await reader.readexactly(8)
    return r[1] == 0x5a


def _bad_socks(kind, how, port, rng):
    p = struct.pack('>H', port)
    if how == 'version':
        return b'\x06\x01\x00'
    if how == 'truncated':
        return (b'\x05\x01' if kind == 'socks5' else b'\x04\x01' + p[:1])
    if how == 'bad_cmd':
        return (b'\x05\x01\x00\x05\x09\x00\x01\x7f\x00\x00\x01' + p
                if kind == 'socks5' else
                b'\x04\x09' + p + b'\x7f\x00\x00\x01u\x00')
    if how == 'bad_atyp':
        return b'\x05\x01\x00\x05\x01\x00\x09\x7f\x00\x00\x01' + p
    if how == 'no_methods':
        return b'\x05\x00'
    if how == 'long_name':
        return b'\x04\x01' + p + b'\x00\x00\x00\x01' + b'u' * 70000
    return bytes(rng.randrange(256) for _ in range(rng.randrange(1, 300)))


# ------------------------------------------------------------------ server side

class _Server(apps.RecServer):
    def __init__(self, log, case, events):
        super().__init__(log, need_auth=events['need_auth'])
        self.case = case
        self.events = events

    def begin_auth(self, username):
        if self.need_auth:
            self.conn.set_authorized_keys(self.events['authorized_keys'])
        return self.need_auth

    def public_key_auth_supported(self):
        return True

    def connection_requested(self, dest_host, dest_port, orig_host,
                             orig_port):
        self.events['requests'].append(('direct-tcpip', dest_host,
                                        dest_port))
        if self.case['perm'] == 'deny_callback':
            return False
        if self.case['gate']:
            async def gated():
                await asyncio.sleep(self.case['gate'])
                return await self.conn.forward_connection(dest_host,
                                                          dest_port)
            return gated()
        return True

    def unix_connection_requested(self, dest_path):
        self.events['requests'].append(('direct-streamlocal', dest_path))
        if self.case['perm'] == 'deny_callback':
            return False
        if self.case['gate']:
            async def gated():
                await asyncio.sleep(self.case['gate'])
                return await self.conn.forward_unix_connection(dest_path)
            return gated()
        return True

    def server_requested(self, listen_host, listen_port):
        self.events['requests'].append(('tcpip-forward', listen_host,
                                        listen_port))
        return self.case['perm'] != 'deny_callback'

    def unix_server_requested(self, listen_path):
        self.events['requests'].append(('streamlocal-forward', listen_path))
        return self.case['perm'] != 'deny_callback'


def _expected_permitted(case):
    p = case['perm']
    kind = case['kind']
    if p in ('allow', 'permitopen_ok', 'permitopen_wild_port', 'cert_pf'):
        return True
    if p in ('deny_callback', 'no_port_forwarding', 'cert_no_pf',
             'cert_no_pf_key_ok', 'cert_nothing'):
        return False
    # permitopen naming another destination: restricts direct-tcpip only
    if kind.startswith('remote') or kind in UNIX_DEST:
        return True
    return False


def run_case(case):
    mon = {k: 0 for k in REQUIRED}
    viol = []
    info = {}
    rng = random.Random(case['cseed'])
    tmp = openssh.tmpdir('vf-c20-')
    kind = case['kind']
    unix_dest = kind in UNIX_DEST
    unix_listen = kind in UNIX_LISTEN
    socks = kind.startswith('socks')
    remote = kind.startswith('remote')

    def bad(mech, detail):
        viol.append({'mechanism': mech, 'detail': detail})

    async def main(loop):
        before = census()
        log = apps.EventLog()
        perm = case['perm']
        events = {'requests': [], 'need_auth': perm not in ('allow',
                                                            'deny_callback')}
        ukey = apps.host_key('ssh-ed25519', 40)
        dests = [Dest(case, 'A'), Dest(case, 'B')]
        for i, d in enumerate(dests):
            await d.start(os.path.join(tmp, f'dest{i}.sock')
                          if unix_dest else None)
        main_dest = dests[0]

        # ---- credentials for the permission grid
        client_keys = [ukey]
        pub = ukey.export_public_key().decode()
        port = main_dest.addr if not unix_dest else 1
        port_b = dests[1].addr if not unix_dest else 2
        opt = {'no_port_forwarding': 'no-port-forwarding ',
               'permitopen_ok': f'permitopen="127.0.0.1:{port}",'
                                f'permitopen="127.0.0.1:{port_b}" ',
               'permitopen_wild_port': 'permitopen="127.0.0.1:*" ',
               'permitopen_other_port': 'permitopen="127.0.0.1:1" ',
               'permitopen_other_host': f'permitopen="otherhost:{port}" ',
               'permitopen_other_host_wild': 'permitopen="otherhost:*" ',
               'permitopen_multi_other':
                   f'permitopen="otherhost:*",permitopen="127.0.0.2:{port}",'
                   f'permitopen="127.0.0.1:{(port % 60000) + 1}" ',
               }.get(perm, '')
        if perm in ('cert_pf', 'cert_no_pf', 'cert_no_pf_key_ok',
                    'cert_nothing'):
            ca = apps.host_key('ssh-ed25519', 41)
            kw = {}
            if perm == 'cert_nothing':
                # `ssh-keygen -O clear`: no permit-* extension at all
                kw = dict(permit_x11_forwarding=False,
                          permit_agent_forwarding=False, permit_pty=False,
                          permit_user_rc=False)
            cert = ca.generate_user_certificate(
                ukey, 'user', principals=['user'],
                permit_port_forwarding=(perm == 'cert_pf'), **kw)
            client_keys = [(ukey, cert)]
            pub = ca.export_public_key().decode()
            opt = 'cert-authority '
            if perm == 'cert_no_pf_key_ok':
                opt = 'cert-authority,permitopen="127.0.0.1:*" '
        events['authorized_keys'] = asyncssh.import_authorized_keys(
            opt + pub)

        permitted = _expected_permitted(case)

        async with scen.Env(loop, server_factory=lambda: _Server(
                log, case, events), chunking=case['chunk'],
                seed=case['cseed']) as env:
            st = {'cut': False}
            conn = await env.connect(client_keys=client_keys)
            link = env.wire.links[0]
            listener = None

            def do_cut():
                if not st['cut']:
                    st['cut'] = True
                    mon['cut_cases'] += 1
                    link.cut(case['cut_mode'])

            if case['cut'] == 'before_reply' and (remote or
                                                   kind in DIRECT_API):
                n0 = link.c2s.nrec

                def mitm(d, idx, data):
                    if d == C2S and idx >= n0 and not st['cut']:
                        loop.call_soon(do_cut)
                    return None
                env.wire.mitm = mitm

            # ---- set up the forward
            lpath = os.path.join(tmp, 'listen.sock')
            daddr = main_dest.addr
            try:
                if kind == 'local':
                    listener = await conn.forward_local_port(
                        '127.0.0.1', 0, '127.0.0.1', daddr)
                elif kind == 'local_unix':
                    listener = await conn.forward_local_path(lpath, daddr)
                elif kind == 'local_port_to_path':
                    listener = await conn.forward_local_port_to_path(
                        '127.0.0.1', 0, daddr)
                elif kind == 'local_path_to_port':
                    listener = await conn.forward_local_path_to_port(
                        lpath, '127.0.0.1', daddr)
                elif kind == 'remote':
                    listener = await asyncio.wait_for(
                        conn.forward_remote_port('127.0.0.1', 0, '127.0.0.1',
                                                 daddr), 60)
                elif kind == 'remote_unix':
                    listener = await asyncio.wait_for(
                        conn.forward_remote_path(lpath, daddr), 60)
                elif socks:
                    listener = await conn.forward_socks('127.0.0.1', 0)
                    mon['socks_cases'] += 1
            except (asyncssh.Error, asyncssh.ChannelListenError, OSError,
                    asyncio.TimeoutError) as exc:
                info['forward_error'] = repr(exc)[:100]
                listener = None

            # more listeners of the same kind on the same connection (dynamic
            # ports / distinct paths); they carry no data, they only have to
            # go away with the connection
            extra_listeners = []
            # (they point at the decoy destination: a connection through the
            # first listener must not end up where a later one leads)
            xaddr = dests[1].addr
            if listener is not None and not st['cut']:
                for k in range(case['nlisten'] - 1):
                    xp = os.path.join(tmp, f'listen{k}.sock')
                    try:
                        if kind == 'local':
                            x = await conn.forward_local_port(
                                '127.0.0.1', 0, '127.0.0.1', xaddr)
                        elif kind == 'local_unix':
                            x = await conn.forward_local_path(xp, xaddr)
                        elif kind == 'local_port_to_path':
                            x = await conn.forward_local_port_to_path(
                                '127.0.0.1', 0, xaddr)
                        elif kind == 'local_path_to_port':
                            x = await conn.forward_local_path_to_port(
                                xp, '127.0.0.1', xaddr)
                        elif kind == 'remote':
                            x = await asyncio.wait_for(
                                conn.forward_remote_port(
                                    '127.0.0.1', 0, '127.0.0.1', xaddr), 60)
                        elif kind == 'remote_unix':
                            x = await asyncio.wait_for(
                                conn.forward_remote_path(xp, xaddr), 60)
                        else:
                            x = await conn.forward_socks('127.0.0.1', 0)
                        extra_listeners.append(x)
                    except (asyncssh.Error, asyncssh.ChannelListenError,
                            OSError, asyncio.TimeoutError) as exc:
                        if not st['cut']:
                            bad('permitted_forward_refused',
                                f'{kind}: additional listener {k}: {exc!r}')
                mon['extra_listeners'] += len(extra_listeners)

            if unix_dest or unix_listen:
                mon['unix_cases'] += 1

            if remote and not st['cut']:
                mon['permission_decisions'] += 1
                if permitted and listener is None:
                    bad('permitted_forward_refused',
                        f'{kind} perm={perm}: {info.get("forward_error")}')
                if not permitted:
                    mon['refusals_judged'] += 1
                    if listener is not None:
                        bad('forbidden_forward_served',
                            f'{kind} perm={perm}: remote listener created')

            results = []
            have_path = listener is not None or kind in DIRECT_API

            if have_path:
                mon['forwards'] += 1
                listen_addr = None
                if listener is not None:
                    listen_addr = lpath if unix_listen else \
                        listener.get_port()

                async def open_client():
                    if kind == 'open_connection':
                        return await conn.open_connection('127.0.0.1', daddr)
                    if kind == 'open_unix_connection':
                        return await conn.open_unix_connection(daddr)
                    if unix_listen:
                        return await asyncio.open_unix_connection(
                            listen_addr)
                    return await asyncio.open_connection('127.0.0.1',
                                                         listen_addr)

                async def one(i):
                    up = _up(case, i)
                    rec = {'got': bytearray(), 'eof': False, 'error': None,
                           'sent': up, 'i': i,
                           'dest': rng.randrange(2) if socks else 0}
                    results.append(rec)
                    fe = case['first_eof']
                    after = case['order'] == 'after_peer_eof'
                    try:
                        r, w = await open_client()
                    except (OSError, asyncssh.Error) as exc:
                        rec['error'] = 'open: ' + repr(exc)[:120]
                        return
                    rec['writer'] = w
                    try:
                        if socks:
                            if case['socks_bad']:
                                mon['hostile_socks'] += 1
                                w.write(_bad_socks(kind, case['socks_bad'],
                                                   daddr, rng))
                                rec['hostile'] = True
                                try:
                                    await asyncio.wait_for(r.read(65536),
                                                           120)
                                except asyncio.TimeoutError:
                                    pass
                                w.close()
                                return
                            piped = bool(case.get('socks_pipe'))
                            if piped:
                                mon['socks_pipelined'] += 1
                                w.write(_socks_request(
                                    kind, '127.0.0.1',
                                    dests[rec['dest']].addr) + up)
                                ok = await _socks_replies(r, kind)
                            else:
                                ok = await _socks_handshake(
                                    r, w, kind, '127.0.0.1',
                                    dests[rec['dest']].addr)
                            rec['socks_ok'] = ok
                            if not ok:
                                w.close()
                                return
                            if piped:
                                up_rest = b''
                            else:
                                up_rest = up
                        if case['gate']:
                            mon['early_data_cases'] += 1
                        if not socks:
                            up_rest = up
                        if fe == 'dest' and after:
                            # send only after the destination's EOF
                            await _read_all(r, rec)
                            await _write_pieces(w, up_rest, case['pieces'])
                            w.close()
                            return
                        rt = None
                        if fe not in ('client_close', 'client_abort'):
                            rt = asyncio.ensure_future(_read_all(
                                r, rec,
                                5 if case.get('slow') == 'client' else 0))
                            if case.get('slow'):
                                mon['slow_reader_cases'] = \
                                    mon.get('slow_reader_cases', 0) + 1
                        try:
                            await _write_pieces(w, up_rest, case['pieces'])
                            if fe == 'client':
                                w.write_eof()
                            elif fe == 'client_close':
                                w.close()
                            elif fe == 'client_abort':
                                if hasattr(w, 'transport'):
                                    w.transport.abort()
                                else:
                                    w.channel.abort()
                        finally:
                            if rt is not None:
                                await _finish_reader(rt, rec)
                        if fe not in ('client_close', 'client_abort'):
                            w.close()
                    except (OSError, ConnectionError, asyncssh.Error,
                            asyncio.IncompleteReadError) as exc:
                        rec['error'] = repr(exc)[:160]

                tasks = [asyncio.ensure_future(one(i))
                         for i in range(case['nconn'])]
                for t in tasks:
                    env.san.harness_tasks.add(t)

                if case['cut'] == 'during':
                    await asyncio.sleep(0.01 if not case['gate'] else 0.5)
                    do_cut()

                done, pending = await asyncio.wait(tasks, timeout=300)
                await env.settle()
                for t in pending:
                    bad('forwarded_connection_hangs',
                        f'client endpoint still waiting after 300 virtual '
                        f'seconds at quiescence (cut={st["cut"]}); '
                        f'{_short(case)}')
                    t.cancel()
                await asyncio.gather(*tasks, return_exceptions=True)

            await env.settle()

            # ---- judge what was relayed
            decoy_hits = sum(len(d.conns) for d in dests[1:]) if not socks \
                else 0
            mon['decoy_checked'] += 1
            if decoy_hits:
                bad('relayed_to_wrong_destination',
                    f'{decoy_hits} connection(s) reached the decoy '
                    f'destination; {_short(case)}')

            all_dconns = [(d, rec) for d in dests for rec in d.conns]
            hostile = bool(case['socks_bad'])

            # prefix rule holds always, whatever happened to the connection
            for d, rec in all_dconns:
                ups = [r['sent'] for r in results]
                got = bytes(rec['got'])
                if not any(u.startswith(got) for u in ups) and not hostile:
                    bad('relayed_stream_differs',
                        {'dir': 'client->dest', 'note': 'not a prefix of '
                         'any stream a client sent', 'got_len': len(got),
                         'case': _short(case)})
            for rec in results:
                got = bytes(rec['got'])
                downs = [r['sent'] for _, r in all_dconns]
                if got and not rec.get('hostile') and \
                        not any(x.startswith(got) for x in downs):
                    bad('relayed_stream_differs',
                        {'dir': 'dest->client', 'note': 'not a prefix of '
                         'any stream a destination sent',
                         'got_len': len(got), 'case': _short(case)})

            if have_path and not st['cut'] and not hostile:
                direct = not remote
                if direct:
                    mon['permission_decisions'] += 1
                    reached = len(all_dconns)
                    if permitted and reached != case['nconn']:
                        bad('permitted_forward_refused',
                            f'{kind} perm={perm}: {reached} of '
                            f'{case["nconn"]} connections reached a '
                            f'destination; client side: '
                            f'{[r.get("error") for r in results]} '
                            f'requests={events["requests"][:3]}')
                    if not permitted:
                        mon['refusals_judged'] += 1
                        if reached:
                            bad('forbidden_forward_served',
                                f'{kind} perm={perm}: a destination was '
                                f'reached')
                        for rec in results:
                            if rec['got']:
                                bad('forbidden_forward_served',
                                    f'{kind} perm={perm}: client received '
                                    f'data on a refused forward')

                fe = case['first_eof']
                if permitted and fe in ('client', 'dest'):
                    # pair each client connection with the destination
                    # connection that answered it
                    for rec in results:
                        d = dests[rec['dest']]
                        mon['streams_compared'] += 2
                        mon['bytes_compared'] += len(rec['got']) + \
                            len(rec['sent'])
                        cands = [x for x in d.conns
                                 if bytes(x['sent']) == bytes(rec['got'])]
                        if not cands:
                            exp = d.conns[0]['sent'] if d.conns else b''
                            diag = apps.diagnose(exp, bytes(rec['got']),
                                                 [x['sent']
                                                  for x in d.conns])
                            bad('relayed_stream_differs',
                                {'dir': 'dest->client', **(diag or {}),
                                 'err': rec.get('error'),
                                 'dest_conns': len(d.conns),
                                 'case': _short(case)})
                            continue
                        mon['pairings_checked'] += 1
                        if not any(bytes(x['got']) == rec['sent']
                                   for x in cands):
                            diag = apps.diagnose(rec['sent'],
                                                 bytes(cands[0]['got']))
                            bad('relayed_stream_differs',
                                {'dir': 'client->dest', **(diag or {}),
                                 'note': 'the destination connection whose '
                                 'answer this client received did not get '
                                 'this client\'s stream',
                                 'case': _short(case)})
                        mon['half_close_checked'] += 1
                        if case['order'] == 'after_peer_eof':
                            mon['ordered_half_close_checked'] += 1
                        if not rec['eof']:
                            bad('eof_not_propagated',
                                f'client end never saw EOF; '
                                f'{_short(case)}')
                    for d, rec in all_dconns:
                        mon['half_close_checked'] += 1
                        if not rec['eof']:
                            bad('eof_not_propagated',
                                f'destination never saw EOF; '
                                f'{_short(case)}')
                if permitted and fe in ('client_close', 'client_abort',
                                        'dest_close'):
                    mon['close_propagation_checked'] += 1
                    for d, rec in all_dconns:
                        if not rec['closed']:
                            bad('close_not_propagated',
                                f'destination side still open after {fe}; '
                                f'{_short(case)}')

            # ---- cancel the forward while the connection stays up
            if listener is not None and case['cancel'] and not st['cut']:
                mid0 = census()
                listener.close()
                try:
                    await asyncio.wait_for(listener.wait_closed(), 60)
                except asyncio.TimeoutError:
                    bad('listener_close_hangs', _short(case))
                await env.settle()
                mid1 = census()
                mon['cancel_checked'] += 1
                if len(mid1['listen']) != len(mid0['listen']) - 1:
                    bad('listener_not_released_on_cancel',
                        f'listening sockets before cancel '
                        f'{len(mid0["listen"])}, after '
                        f'{len(mid1["listen"])}; {_short(case)}')
                listener = None

            if case['cut'] == 'idle':
                do_cut()
                await env.settle()

            # ---- tear down and census: mostly the listeners are left to the
            # connection, which has to release them when it ends
            if case['explicit_close']:
                for x in [listener] + extra_listeners:
                    if x is not None:
                        try:
                            x.close()
                        except Exception:
                            pass
            else:
                mon['implicit_release_cases'] += 1
            conn.close()
            try:
                await asyncio.wait_for(conn.wait_closed(), 60)
            except asyncio.TimeoutError:
                bad('connection_close_hangs', _short(case))
            await env.settle()
            for rec in results:
                w = rec.get('writer')
                if w is not None:
                    try:
                        w.close()
                    except Exception:
                        pass
            for d in dests:
                await d.stop()
            await env.settle()
            await asyncio.sleep(0.02)
            await env.settle()

            # a socket which nobody references any more but which was
            # never closed shows up as a ResourceWarning at collection
            gc.collect()
            await env.settle()
            for ev in env.san.drain():
                if ev['kind'] == 'resource_warning' and \
                        'unclosed' in ev['message']:
                    bad('socket_never_closed', ev)
                else:
                    bad('sanitizer_' + ev['kind'], ev)

        after = census()
        mon['census_checked'] += 1
        extra = after['listen'] - before['listen']
        if extra:
            bad('listener_leaked',
                f'listening sockets left after the connection ended: '
                f'{sorted(extra)}; {_short(case)}')
        if after['sockets'] > before['sockets']:
            bad('socket_leaked',
                f'{after["sockets"] - before["sockets"]} socket fd(s) left '
                f'open; {_short(case)}')

    try:
        vloop.run(main, virtual=True)
    except vloop.QuiescentHang as exc:
        bad('hang', str(exc))
    finally:
        shutil.rmtree(tmp, ignore_errors=True)

    nontrivial = mon['forwards'] or mon['permission_decisions']
    seen = set()
    uniq = []
    for v in viol:
        if v['mechanism'] not in seen:
            seen.add(v['mechanism'])
            uniq.append(v)
    res = {'mon': mon, 'sig': signature(case) if nontrivial else None,
           'sample': {**_short(case), 'observed': info}}
    res['verdict'] = 'violated' if uniq else ('held' if nontrivial
                                              else 'skipped')
    if uniq:
        res['violations'] = uniq
    return res
