"""C04 - Client only talks to a server whose host key it trusts.

  trust : known_hosts content is generated from structured entries (marker,
          pattern list incl. wildcard / negation / CIDR / hashed with random
          salt / [host]:port, key), so the ground truth is known by
          construction; a 60-line reference trust model decides accept/reject
          for (host, address, port) x server credential (plain key or host
          certificate with type, validity window on a fixed clock,
          principals).  asyncssh client <-> asyncssh server on the in-memory
          wire: connect() must succeed exactly when the model accepts; on
          reject it must fail with a host-key / key-exchange error and the
          independent tap must show that the client sent no NEWKEYS, service
          or authentication request.
  lie   : a reference-peer server presents a trusted key but signs with
          another, signs a different hash, presents a certificate whose
          content was altered after signing, one signed by an untrusted or
          revoked CA - all must be refused before credentials are sent.
"""

import asyncio
import base64
import fnmatch
import hashlib
import hmac
import ipaddress
import os
import random

from .. import import_asyncssh, apps, scen, vloop, tap as tapmod, refpeer, \
    refssh as R
from ..wire import C2S, S2C

asyncssh = import_asyncssh()

ID = 'C04'
LEVEL = 'exploration'
RULE = ('trust cases: 1..6 generated known_hosts lines (plain / '
        '@cert-authority / @revoked; exact, wildcard, negated, CIDR, hashed, '
        '[host]:port patterns; several matching lines; revocation before or '
        'after the trusted line) x target (name, alias, address, port 22 or '
        'other) x server credential (one of 4 keys, or a host certificate '
        'with type/validity/principals drawn around the boundaries, signed '
        'by one of 2 CAs); lie cases: (lie kind, credential); non-trivial = '
        'a connection attempt was decided by the model; distinct = distinct '
        '(entries shape, target, credential) signatures')
ASSUMPTIONS = ['known_hosts=None (explicit opt-out) is not exercised',
               'clock for certificate windows is a fixed substitute for '
               'asyncssh.public_key.time']
OUT_OF_REACH = ['X.509 host certificates (no pyOpenSSL)']
REQUIRED = ['trust_cases', 'accept_expected', 'reject_expected',
            'cert_cases', 'cert_boundary_cases', 'revoked_cases',
            'hashed_cases', 'port_cases', 'no_credentials_sent_checked',
            'callback_cases', 'alias_cases', 'file_cases',
            'lie_cases', 'reuse_lookups', 'tunnel_cases']
BUDGET_S = {'quick': 300, 'thorough': 3400}
CASE_TIMEOUT_S = 60

NOW = 1_750_000_000
HOSTS = ['testhost', 'db.example.com', 'web1.example.com', 'other.net']
ADDRS = ['127.0.0.1', '10.1.2.3', '192.168.7.9', '2001:db8::5']


class _FakeTime:
    def time(self):
        return float(NOW)

    def __getattr__(self, name):
        import time
        return getattr(time, name)


# ------------------------------------------------------------------ reference model

def _pat_match(pat, host, addr, port):
    """One known_hosts pattern against the (ported) host and address"""

    h = f'[{host}]:{port}' if port and host else host
    a = f'[{addr}]:{port}' if port and addr else addr
    if pat.startswith('|1|'):
        _, _, salt, digest = pat.split('|')
        s = base64.b64decode(salt)
        d = base64.b64decode(digest)
        return any(v and hmac.new(s, v.encode(), hashlib.sha1).digest() == d
                   for v in (h, a))
    if '/' in pat:
        if port:
            # address ranges carry no port: they speak for the default port
            # only (and for the port-less fallback lookup)
            return False
        try:
            return bool(addr) and \
                ipaddress.ip_address(addr) in ipaddress.ip_network(pat)
        except ValueError:
            return False

    def wild(v):
        return bool(v) and fnmatch.fnmatchcase(
            v, pat.replace('[', '[[]').replace(']', '[]]')
            .replace('[[[]]', '[[]'))
    # fnmatchcase treats [] as sets: escape literally
    esc = ''.join('[[]' if c == '[' else '[]]' if c == ']' else c
                  for c in pat)
    return any(v and fnmatch.fnmatchcase(v, esc) for v in (h, a))


def _line_match(patterns, host, addr, port):
    if len(patterns) == 1 and patterns[0].startswith('|1|'):
        return _pat_match(patterns[0], host, addr, port)
    pos = [p for p in patterns if not p.startswith('!')]
    neg = [p[1:] for p in patterns if p.startswith('!')]
    return any(_pat_match(p, host, addr, port) for p in pos) and \
        not any(_pat_match(p, host, addr, port) for p in neg)


def _lookup(entries, host, addr, port):
    t, c, r = set(), set(), set()
    for marker, patterns, key in entries:
        if _line_match(patterns, host, addr, port):
            {'': t, 'cert-authority': c, 'revoked': r}[marker].add(key)
    return t, c, r


def model(entries, host, addr, port, cred, cb=None):
    """Returns (accept: bool, reason) or (None, why) if unjudged"""

    p = port if port != 22 else None
    t, c, r = _lookup(entries, host, addr, p)
    if p and not (t or c):
        # fallback to the plain name; revocations listed for the ported
        # form stay in force (what the OpenSSH client does)
        t2, c2, r2 = _lookup(entries, host, addr, None)
        t, c, r = t2, c2, r2 | r

    if cb:
        # validate_host_public_key / validate_host_ca_key only widen what is
        # trusted; revocation and every certificate check still apply
        t = t | set(cb['keys'])
        c = c | set(cb['cas'])

    if cred['kind'] == 'key':
        k = cred['key']
        if k in r:
            return False, 'key revoked'
        return (k in t), 'listed' if k in t else 'not listed'

    k = cred['key']
    if k in t:
        # the server offers the plain key as well: which credential is used
        # depends on algorithm negotiation, not on the trust decision
        return None, 'plain key of the certificate is listed too'

    ca = cred['ca']
    if ca in r:
        return False, 'CA revoked'
    if ca not in c:
        return False, 'CA not trusted'
    if cred['type'] != 'host':
        return False, 'wrong certificate type'
    if not (cred['after'] <= NOW < cred['before']):
        return False, 'outside validity window'
    if cred['principals'] and host not in cred['principals']:
        return False, 'principal not listed'
    return True, 'certificate accepted'


# ------------------------------------------------------------------ generation

def _hashed(rng, name):
    salt = bytes(rng.randrange(256) for _ in range(20))
    d = hmac.new(salt, name.encode(), hashlib.sha1).digest()
    return '|1|' + base64.b64encode(salt).decode() + '|' + \
        base64.b64encode(d).decode()


def _patterns_for(rng, host, addr, port, hit):
    """A pattern list that (hit) matches / (not hit) does not match"""

    other_h = rng.choice([h for h in HOSTS if h != host])
    other_a = rng.choice([a for a in ADDRS if a != addr])
    ported = port != 22

    def wrap(v):
        # entries meant for a non-default port are written [name]:port (a
        # bare name or address next to a ported target is left to the
        # documented fallback and to names/addresses other than the target's)
        return f'[{v}]:{port}' if ported else v

    if hit:
        k = rng.choice(['exact', 'exact', 'addr', 'wild', 'wild2', 'cidr',
                        'hashed', 'multi', 'neg_other', 'addr_wild',
                        'addr_wild'])
        if k == 'addr_wild':
            # a wildcard over the peer *address*, while connecting by name
            if ':' in addr:
                w = addr.rsplit(':', 1)[0] + ':*'
            else:
                w = addr.rsplit('.', 1)[0] + '.' + rng.choice(['*', '?*'])
            return [wrap(w)] if not ported else [f'[{w}]:{port}']
        if k == 'exact':
            return [wrap(host)]
        if k == 'addr':
            return [wrap(addr)]
        if k == 'wild':
            return [wrap(host[:2] + '*')] if not ported else \
                [f'[{host[:2]}*]:{port}']
        if k == 'wild2':
            return [wrap('?' + host[1:])] if not ported else \
                [f'[?{host[1:]}]:{port}']
        if k == 'cidr':
            if ported and len(host) % 2:
                return [wrap(host)]
            if ':' in addr:
                return ['2001:db8::/32']
            return [addr.rsplit('.', 1)[0] + '.0/24']
        if k == 'hashed':
            v = f'[{host}]:{port}' if ported else host
            return [_hashed(rng, v)]
        if k == 'multi':
            return [other_h, wrap(host), other_a]
        return [wrap(host), '!' + other_h]
    k = rng.choice(['other', 'other_addr', 'negated', 'wild_miss',
                    'hashed_other', 'wrong_port', 'neg_addr_wild'])
    if k == 'neg_addr_wild' and not ported and ':' not in addr:
        # matches everything except hosts at the peer's address range
        return ['*', '!' + addr.rsplit('.', 1)[0] + '.*']
    if k == 'other':
        return [other_h]
    if k == 'other_addr':
        return [other_a]
    if k == 'negated':
        return ['*', '!' + wrap(host), '!' + wrap(addr)]
    if k == 'wild_miss':
        return ['zz*']
    if k == 'hashed_other':
        return [_hashed(rng, other_h)]
    return [f'[{host}]:{port + 1}']


def gen_cases(tier, seed):
    rng = random.Random(f'c04-{seed}')
    cases = []
    n = 1800 if tier == 'quick' else 30000

    for i in range(n):
        host = rng.choice(HOSTS)
        addr = rng.choice(ADDRS)
        port = rng.choice([22, 22, 2222, 8022])
        use_cert = rng.random() < 0.45
        if use_cert:
            b = rng.choice(['in', 'in', 'at_after', 'before_after',
                            'at_before', 'just_before', 'expired'])
            after, before = {
                'in': (NOW - 1000, NOW + 1000),
                'at_after': (NOW, NOW + 10),
                'before_after': (NOW + 1, NOW + 100),
                'at_before': (NOW - 100, NOW),
                'just_before': (NOW - 100, NOW + 1),
                'expired': (NOW - 100, NOW - 1)}[b]
            cred = {'kind': 'cert', 'key': rng.randrange(4),
                    'ca': rng.choice(['CA0', 'CA1']),
                    'type': rng.choice(['host', 'host', 'host', 'user']),
                    'after': after, 'before': before, 'boundary': b,
                    'principals': rng.choice([[], [host], [host, 'x'],
                                              ['wrong.example'],
                                              [addr], ['dial.example'],
                                              ['dial.example', addr]])}
        else:
            cred = {'kind': 'key', 'key': rng.randrange(4)}

        entries = []
        for _ in range(rng.choice([1, 1, 2, 3, 4, 6])):
            marker = rng.choice(['', '', '', 'cert-authority',
                                 'cert-authority', 'revoked'])
            if marker == 'cert-authority':
                key = rng.choice(['CA0', 'CA1'])
            elif marker == 'revoked':
                key = rng.choice([0, 1, 2, 3, 'CA0', 'CA1'])
            else:
                key = rng.randrange(4)
            hit = rng.random() < 0.6
            entries.append([marker, _patterns_for(rng, host, addr, port,
                                                  hit), key])
        # make the interesting line likely: one that names the credential
        if rng.random() < 0.75:
            if use_cert:
                entries.insert(rng.randrange(len(entries) + 1),
                               ['cert-authority',
                                _patterns_for(rng, host, addr, port, True),
                                cred['ca']])
            else:
                entries.insert(rng.randrange(len(entries) + 1),
                               ['', _patterns_for(rng, host, addr, port,
                                                  True), cred['key']])
        cb = None
        if rng.random() < 0.3:
            # the application vouches for some keys / CAs itself
            cb = {'keys': rng.sample([0, 1, 2, 3], rng.choice([0, 1, 2])),
                  'cas': rng.sample(['CA0', 'CA1'], rng.choice([0, 1, 1, 2]))}
            if rng.random() < 0.5:
                # ... and known_hosts says nothing about this credential
                entries = [e for e in entries
                           if e[2] not in (cred['key'], cred.get('ca'))]
        cases.append({'kind': 'trust', 'host': host, 'addr': addr,
                      'port': port, 'cred': cred, 'entries': entries,
                      'cb': cb,
                      # the name that is dialled differs from the name trust
                      # is looked up under (host_key_alias)
                      'alias': rng.random() < 0.25,
                      # how the trust data reaches connect()
                      'kh_via': rng.choice(['arg', 'arg', 'arg', 'home_file',
                                            'config_file', 'config_none']),
                      'chunk': rng.choice(['all', 'record', 'random']),
                      'cseed': rng.randrange(1 << 30)})

    # one loaded known_hosts object serving several connections: every
    # decision is the one a freshly loaded object would take
    for i in range(90 if tier == 'quick' else 1500):
        host = HOSTS[i % len(HOSTS)]
        a, b = rng.sample(ADDRS[:3], 2)
        k0, k1, k2 = rng.sample([0, 1, 2, 3], 3)
        form = ['exact', 'wild', 'cidr', 'multi'][i % 4]
        apat = {'exact': [a], 'wild': [a.rsplit('.', 1)[0] + '.*'],
                'cidr': [a + '/32'], 'multi': ['zz.example', a]}[form]
        entries = [['', [host], k0], ['', apat, k1]]
        if i % 5 == 0:
            entries.append(['revoked', [b], k0])
        steps = [[rng.choice([a, b]), rng.choice([k0, k1, k1, k2])]
                 for _ in range(3)]
        if i % 3 == 0:
            steps = [[a, k0], [b, k1], [a, k1]]
        cases.append({'kind': 'reuse', 'host': host, 'entries': entries,
                      'steps': steps, 'chunk': 'all',
                      'cseed': rng.randrange(1 << 30)})

    # through a jump host (tunnel= an established connection): the trust
    # decision for the destination uses the destination's name only - the
    # client does not know its address, and the hop's address is not it
    for dk in ('D', 'J', 'X'):
        for jform in ('bare_addr', 'ported_addr', 'addr_wild', 'cidr', 'star',
                      'none'):
            for dest_listed in (True, False):
                cases.append({'kind': 'tunnel', 'dest_key': dk,
                              'jump_line': jform, 'dest_listed': dest_listed,
                              'chunk': 'all', 'cseed': 3})

    nl = 135 if tier == 'quick' else 1500
    for i in range(nl):
        cases.append({'kind': 'lie',
                      'lie': ['sign_other_key', 'sign_other_hash',
                              'cert_content_altered', 'cert_untrusted_ca',
                              'cert_sig_other_key', 'honest',
                              'cert_principal_not_utf8',
                              'cert_principals_all_not_utf8',
                              'cert_handbuilt_honest'][i % 9],
                      'chunk': rng.choice(['all', 'record', 'random']),
                      'cseed': rng.randrange(1 << 30)})
    return cases


def signature(case):
    if case['kind'] == 'lie':
        return 'lie-' + case['lie'] + '-' + case['chunk']
    if case['kind'] in ('reuse', 'tunnel'):
        return hashlib.sha1(repr(sorted(
            (k, repr(v)) for k, v in case.items()
            if k != 'cseed')).encode()).hexdigest()[:16]
    shape = [(m, [('h' if p.startswith('|1|') else
                   'c' if '/' in p else 'n' if p.startswith('!') else
                   'p' if p.startswith('[') else
                   'w' if ('*' in p or '?' in p) else 'e') for p in pats],
              str(k)) for m, pats, k in case['entries']]
    cred = {k: v for k, v in case['cred'].items()
            if k not in ('after', 'before')}
    parts = (shape, case['host'], case['addr'], case['port'], repr(cred))
    return hashlib.sha1(repr(parts).encode()).hexdigest()[:16]


# ------------------------------------------------------------------ runs

_POOL = {}


def _pool():
    if not _POOL:
        _POOL[0] = apps.host_key('ssh-ed25519', 20)
        _POOL[1] = apps.host_key('ssh-ed25519', 21)
        _POOL[2] = apps.host_key('ecdsa-sha2-nistp256', 20)
        _POOL[3] = apps.host_key('ssh-rsa', 20, key_size=2048)
        _POOL['CA0'] = apps.host_key('ssh-ed25519', 30)
        _POOL['CA1'] = apps.host_key('ecdsa-sha2-nistp384', 30)
    return _POOL


def _kh_text(entries):
    pool = _pool()
    lines = []
    for marker, pats, key in entries:
        pub = pool[key].export_public_key().decode().strip()
        lines.append((('@' + marker + ' ') if marker else '') +
                     ','.join(pats) + ' ' + pub)
    return '\n'.join(lines) + '\n'


def _no_credentials(lt, viol, mon, what):
    """From the tap: the client must not have sent NEWKEYS / SERVICE_REQUEST
       / USERAUTH_REQUEST"""

    mon['no_credentials_sent_checked'] += 1
    sent = [t for _, d, _, t, _, _ in lt.events if d == C2S and
            t in (R.MSG_NEWKEYS, R.MSG_SERVICE_REQUEST,
                  R.MSG_USERAUTH_REQUEST)]
    if sent:
        viol.append({'mechanism': 'client_proceeded_after_untrusted_key',
                     'detail': f'{what}: client sent message types {sent} '
                               f'although the host key was not acceptable'})


def _run_trust(case, mon, viol):
    import shutil
    import tempfile
    pool = _pool()
    cred = case['cred']
    info = {}
    from asyncssh import public_key as PK
    saved = PK.time
    PK.time = _FakeTime()
    tmpd = tempfile.mkdtemp(prefix='vf-c04-')
    saved_home = os.environ.get('HOME')
    os.environ['HOME'] = tmpd

    async def main(loop):
        key = pool[cred['key']]
        opts = {}
        if cred['kind'] == 'cert':
            ca = pool[cred['ca']]
            gen = ca.generate_host_certificate if cred['type'] == 'host' \
                else ca.generate_user_certificate
            cert = gen(key, 'id', principals=cred['principals'],
                       valid_after=cred['after'], valid_before=cred['before'])
            opts['server_host_certs'] = [cert]
            hostkeys = [key]
        else:
            hostkeys = [key]
            opts['server_host_certs'] = []

        async with scen.Env(loop, server_factory=lambda: apps.RecServer(
                apps.EventLog()), chunking=case['chunk'], seed=case['cseed'],
                host_keys=hostkeys, server_opts=opts) as env:
            env.wire.server_addr = (case['addr'], case['port'])
            t = tapmod.Tap(env.wire)
            try:
                text = _kh_text(case['entries'])
                kh = asyncssh.import_known_hosts(text)
                extra = {}
                via = case.get('kh_via', 'arg')
                dial = case['host']
                if case.get('alias'):
                    dial = 'dial.example'
                    extra['host_key_alias'] = case['host']
                    mon['alias_cases'] += 1
                khargs = {'known_hosts': kh, 'config': None}
                if via != 'arg':
                    mon['file_cases'] += 1
                    os.makedirs(os.path.join(tmpd, '.ssh'), exist_ok=True)
                    if via == 'home_file':
                        # nothing passed at all: $HOME/.ssh/known_hosts
                        with open(os.path.join(tmpd, '.ssh', 'known_hosts'),
                                  'w') as f:
                            f.write(text)
                        khargs = {'config': None}
                    else:
                        khf = os.path.join(tmpd, 'kh')
                        with open(khf, 'w') as f:
                            f.write(text)
                        cfg = os.path.join(tmpd, 'cfg')
                        with open(cfg, 'w') as f:
                            f.write('UserKnownHostsFile ' +
                                    (khf if via == 'config_file'
                                     else 'none') + '\n')
                        khargs = {'config': [cfg]}
                cb = case.get('cb')
                if cb:
                    from asyncssh.public_key import \
                        get_default_public_key_algs, \
                        get_default_certificate_algs
                    okk = [pool[k].public_data for k in cb['keys']]
                    okc = [pool[k].public_data for k in cb['cas']]

                    class Cli(asyncssh.SSHClient):
                        def validate_host_public_key(self, h, a, p, key):
                            return key.public_data in okk

                        def validate_host_ca_key(self, h, a, p, key):
                            return key.public_data in okc

                    extra['client_factory'] = Cli
                    # offer every algorithm, whatever known_hosts lists
                    extra['server_host_key_algs'] = [
                        a.decode() for a in
                        list(get_default_certificate_algs()) +
                        list(get_default_public_key_algs())]
                ct = asyncio.ensure_future(asyncssh.connect(
                    dial, case['port'], tunnel=env.wire,
                    username='user', client_keys=None,
                    agent_path=None, **khargs, **extra))
                env.san.harness_tasks.add(ct)
                await env.settle()
                if not ct.done():
                    ct.cancel()
                res = (await asyncio.gather(ct, return_exceptions=True))[0]
                ok = not isinstance(res, BaseException)
                info['connected'] = ok
                info['error'] = None if ok else repr(res)[:140]
                if ok:
                    res.abort()
                await env.settle()

                mcred = dict(cred)
                exp, why = model(case['entries'], case['host'], case['addr'],
                                 case['port'], mcred, case.get('cb'))
                if via == 'config_none':
                    # UserKnownHostsFile none: the documented opt-out
                    exp, why = True, 'host key checking switched off'
                if case.get('cb'):
                    mon['callback_cases'] += 1
                info['model'] = (exp, why)
                if exp is None:
                    return
                mon['trust_cases'] += 1
                if cred['kind'] == 'cert':
                    mon['cert_cases'] += 1
                    if cred['boundary'] != 'in':
                        mon['cert_boundary_cases'] += 1
                if any(m == 'revoked' for m, _, _ in case['entries']):
                    mon['revoked_cases'] += 1
                if any(p.startswith('|1|') for _, ps, _ in case['entries']
                       for p in ps):
                    mon['hashed_cases'] += 1
                if case['port'] != 22:
                    mon['port_cases'] += 1

                if exp:
                    mon['accept_expected'] += 1
                    if not ok:
                        viol.append({
                            'mechanism': 'trusted_host_key_refused',
                            'detail': f'model: {why}; connect raised '
                                      f'{info["error"]}; target='
                                      f'{case["host"]}/{case["addr"]}:'
                                      f'{case["port"]} cred={cred} '
                                      f'known_hosts={text!r:.600}'})
                else:
                    mon['reject_expected'] += 1
                    if ok:
                        viol.append({
                            'mechanism': 'untrusted_host_key_accepted',
                            'detail': f'model: {why}; connect succeeded; '
                                      f'target={case["host"]}/'
                                      f'{case["addr"]}:{case["port"]} '
                                      f'cred={cred} known_hosts='
                                      f'{text!r:.600}'})
                    else:
                        name = type(res).__name__
                        # (ConnectionLost: the server found no host key
                        # algorithm in common and its DISCONNECT was still
                        # in flight when it aborted the transport)
                        if name not in ('HostKeyNotVerifiable',
                                        'KeyExchangeFailed',
                                        'ConnectionLost'):
                            viol.append({
                                'mechanism': 'host_key_error_class',
                                'detail': f'{res!r}; model: {why}'})
                        if 0 in t.links:
                            _no_credentials(t[0], viol, mon, why)
                for ev in env.san.drain():
                    viol.append({'mechanism': 'sanitizer_' + ev['kind'],
                                 'detail': ev})
            finally:
                t.close()

    try:
        scen.run(main)
    finally:
        PK.time = saved
        if saved_home is None:
            os.environ.pop('HOME', None)
        else:
            os.environ['HOME'] = saved_home
        shutil.rmtree(tmpd, ignore_errors=True)
    return info


def _run_reuse(case, mon, viol):
    pool = _pool()
    info = {'steps': []}
    text = _kh_text(case['entries'])

    async def main(loop):
        kh = asyncssh.import_known_hosts(text)
        for n, (addr, key) in enumerate(case['steps']):
            async with scen.Env(loop, server_factory=lambda: apps.RecServer(
                    apps.EventLog()), chunking=case['chunk'],
                    seed=case['cseed'] + n, host_keys=[pool[key]],
                    server_opts={'server_host_certs': []}) as env:
                env.wire.server_addr = (addr, 22)
                ct = asyncio.ensure_future(asyncssh.connect(
                    'dial.example', 22, tunnel=env.wire, username='user',
                    client_keys=None, agent_path=None, config=None,
                    known_hosts=kh, host_key_alias=case['host']))
                env.san.harness_tasks.add(ct)
                await env.settle()
                if not ct.done():
                    ct.cancel()
                res = (await asyncio.gather(ct, return_exceptions=True))[0]
                ok = not isinstance(res, BaseException)
                if ok:
                    res.abort()
                await env.settle()
                env.san.drain()
            exp, why = model(case['entries'], case['host'], addr, 22,
                             {'kind': 'key', 'key': key})
            info['steps'].append((addr, key, ok, exp))
            mon['reuse_lookups'] += 1
            mon['trust_cases'] += 1
            if exp is not None and ok != exp:
                viol.append({
                    'mechanism': 'untrusted_host_key_accepted' if ok
                    else 'trusted_host_key_refused',
                    'detail': f'connection {n + 1} through one loaded '
                              f'known_hosts object: {case["host"]} at {addr} '
                              f'presenting key {key}: connected={ok}, a '
                              f'fresh object decides {exp} ({why}); earlier '
                              f'lookups={info["steps"][:-1]} known_hosts='
                              f'{text!r:.400}'})
                break

    scen.run(main)
    return info


def _run_tunnel(case, mon, viol):
    info = {}
    kj = apps.host_key('ssh-ed25519', 50)
    kd = apps.host_key('ssh-ed25519', 51)
    kx = apps.host_key('ssh-ed25519', 52)
    dest_key = {'D': kd, 'J': kj, 'X': kx}[case['dest_key']]
    pub = lambda k: k.export_public_key().decode().strip()  # noqa: E731
    reached = []

    class Jump(asyncssh.SSHServer):
        def begin_auth(self, username):
            return False

        def connection_requested(self, dest_host, dest_port, orig_host,
                                 orig_port):
            return True

    class Dest(asyncssh.SSHServer):
        def begin_auth(self, username):
            reached.append(username)
            return False

    async def main(loop):
        ja = await asyncssh.listen('127.0.0.1', 0, server_host_keys=[kj],
                                   server_factory=Jump)
        da = await asyncssh.listen('127.0.0.1', 0, server_host_keys=[dest_key],
                                   server_factory=Dest)
        pj, pd = ja.get_port(), da.get_port()
        lines = [f'[127.0.0.1]:{pj} {pub(kj)}']
        jl = case['jump_line']
        if jl == 'bare_addr':
            lines.append(f'127.0.0.1 {pub(kj)}')
        elif jl == 'ported_addr':
            lines.append(f'[127.0.0.1]:{pd} {pub(kj)}')
        elif jl == 'addr_wild':
            lines.append(f'127.0.0.* {pub(kj)}')
        elif jl == 'cidr':
            lines.append(f'127.0.0.0/8 {pub(kj)}')
        elif jl == 'star':
            lines.append(f'*.example.com,jump* {pub(kj)}')
        if case['dest_listed']:
            lines.append(f'[localhost]:{pd} {pub(kd)}')
        kh = asyncssh.import_known_hosts('\n'.join(lines) + '\n')
        common = dict(username='user', client_keys=None, agent_path=None,
                      config=None, known_hosts=kh)
        try:
            c1 = await asyncio.wait_for(
                asyncssh.connect('127.0.0.1', pj, **common), 60)
            try:
                c2 = await asyncio.wait_for(asyncssh.connect(
                    'localhost', pd, tunnel=c1, **common), 60)
                ok = True
                c2.abort()
            except (asyncssh.Error, OSError) as exc:
                ok = False
                info['error'] = repr(exc)[:120]
            c1.abort()
        finally:
            ja.close()
            da.close()
            await ja.wait_closed()
            await da.wait_closed()
        exp = case['dest_listed'] and case['dest_key'] == 'D'
        info.update(connected=ok, expected=exp, reached=list(reached))
        mon['tunnel_cases'] += 1
        mon['trust_cases'] += 1
        what = (f'destination behind a jump host presents key '
                f'{case["dest_key"]}; known_hosts lists the jump host as '
                f'{jl!r} and the destination: {case["dest_listed"]}')
        if ok and not exp:
            viol.append({'mechanism': 'untrusted_host_key_accepted',
                         'detail': what + '; connect succeeded'})
        elif exp and not ok:
            viol.append({'mechanism': 'trusted_host_key_refused',
                         'detail': what + f'; {info.get("error")}'})
        if not exp and reached:
            viol.append({'mechanism': 'client_proceeded_after_untrusted_key',
                         'detail': what + f'; an authentication request for '
                                          f'{reached} reached the destination'})

    vloop.run(main, virtual=True)
    return info


def _run_lie(case, mon, viol):
    info = {}
    from asyncssh import public_key as PK
    saved = PK.time
    PK.time = _FakeTime()

    async def main(loop):
        async with scen.Env(loop, chunking=case['chunk'],
                            seed=case['cseed']) as env:
            env.acceptor.close()
            lie = case['lie']
            real = refpeer.Ed25519Key()
            other = refpeer.Ed25519Key()
            ca = apps.host_key('ssh-ed25519', 30)
            bad_ca = apps.host_key('ssh-ed25519', 31)
            peer = refpeer.RefPeer('server', loop=loop, host_key=real)
            kh_lines = ['testhost ' + real.openssh_public().decode(),
                        '@cert-authority testhost ' +
                        ca.export_public_key().decode().strip()]

            if lie.startswith('cert'):
                subj = asyncssh.import_public_key(real.openssh_public())
                signer = bad_ca if lie == 'cert_untrusted_ca' else ca
                cert = signer.generate_host_certificate(
                    subj, 'id', principals=['testhost'],
                    valid_after=NOW - 10, valid_before=NOW + 1000)
                blob = bytearray(cert.public_data)
                if lie == 'cert_content_altered':
                    # flip a bit inside the key-id / principals area
                    i = blob.find(b'testhost')
                    blob[i] ^= 0x01
                    kh_lines[0] = 'unrelated ' + kh_lines[0].split(' ', 1)[1]
                cert_alg = b'ssh-ed25519-cert-v01@openssh.com'

                cert_blob = bytes(blob)
                if lie in ('cert_principal_not_utf8',
                           'cert_principals_all_not_utf8',
                           'cert_handbuilt_honest'):
                    # hand-built (PROTOCOL.certkeys) and properly signed by
                    # the trusted CA; only the principal names are unusual
                    import struct as _st

                    def _s(b):
                        return _st.pack('>I', len(b)) + b
                    pr = {'cert_principal_not_utf8': [b'db\xe9.example.com'],
                          'cert_principals_all_not_utf8':
                          [b'\xff\xfe\xfd', b'\xc3\x28'],
                          'cert_handbuilt_honest': [b'testhost']}[lie]
                    body = _s(cert_alg) + _s(os.urandom(32)) + \
                        _s(real.pub) + _st.pack('>Q', 7) + \
                        _st.pack('>I', 2) + _s(b'id') + \
                        _s(b''.join(_s(x) for x in pr)) + \
                        _st.pack('>Q', NOW - 10) + \
                        _st.pack('>Q', NOW + 1000) + _s(b'') + _s(b'') + \
                        _s(b'') + _s(ca.public_data)
                    cert_blob = body + _s(ca.sign(body, b'ssh-ed25519'))

                class CertKey:
                    alg = b'ssh-ed25519'

                    @property
                    def blob(self):
                        return cert_blob

                    def sign(self, data):
                        k = other if lie == 'cert_sig_other_key' else real
                        return k.sign(data)
                peer.host_key = CertKey()
                peer.lists['hostkey'] = [cert_alg]
                kh_lines = [kh_lines[1]]
            elif lie == 'sign_other_key':
                peer.sign_hook = lambda h: other.sign(h)
            elif lie == 'sign_other_hash':
                peer.sign_hook = lambda h: real.sign(
                    hashlib.sha256(b'another exchange').digest())

            await env.wire.create_server(lambda h, p: peer, '', 22)
            t = tapmod.Tap(env.wire)
            try:
                async def serve():
                    await peer.handshake()
                    await peer.serve_auth_accept_all()

                st = asyncio.ensure_future(serve())
                kh = asyncssh.import_known_hosts('\n'.join(kh_lines) + '\n')
                ct = asyncio.ensure_future(asyncssh.connect(
                    'testhost', tunnel=env.wire, known_hosts=kh,
                    username='user', client_keys=None, agent_path=None,
                    config=None, password='secret'))
                env.san.harness_tasks.update((st, ct))
                await env.settle()
                for x in (st, ct):
                    if not x.done():
                        x.cancel()
                res = await asyncio.gather(st, ct, return_exceptions=True)
                ok = not isinstance(res[1], BaseException)
                info['connected'] = ok
                info['error'] = None if ok else repr(res[1])[:140]
                if ok:
                    res[1].abort()
                mon['lie_cases'] += 1
                if lie in ('honest', 'cert_handbuilt_honest'):
                    if not ok:
                        viol.append({'mechanism': 'trusted_host_key_refused',
                                     'detail': f'honest reference server: '
                                               f'{info["error"]}'})
                else:
                    if ok:
                        viol.append({
                            'mechanism': 'lying_server_accepted',
                            'detail': f'{lie}: connect() succeeded'})
                    elif 0 in t.links or True:
                        # the tap cannot decode the reference server's
                        # direction without its keys; the reference server
                        # itself sees what the client sent
                        sent = [x[1] for x in peer.received
                                if x[1] in (R.MSG_SERVICE_REQUEST,
                                            R.MSG_USERAUTH_REQUEST)]
                        mon['no_credentials_sent_checked'] += 1
                        if sent:
                            viol.append({
                                'mechanism':
                                'client_proceeded_after_untrusted_key',
                                'detail': f'{lie}: client sent {sent}'})
                await env.settle()
                for ev in env.san.drain():
                    viol.append({'mechanism': 'sanitizer_' + ev['kind'],
                                 'detail': ev})
            finally:
                t.close()

    try:
        scen.run(main)
    finally:
        PK.time = saved
    return info


def run_case(case):
    mon = {k: 0 for k in REQUIRED}
    viol = []
    info = {}
    try:
        if case['kind'] == 'trust':
            info = _run_trust(case, mon, viol)
        elif case['kind'] == 'reuse':
            info = _run_reuse(case, mon, viol)
        elif case['kind'] == 'tunnel':
            info = _run_tunnel(case, mon, viol)
        else:
            info = _run_lie(case, mon, viol)
    except vloop.QuiescentHang as exc:
        viol.append({'mechanism': 'hang', 'detail': str(exc)})

    nontrivial = mon['trust_cases'] or mon['lie_cases']
    res = {'mon': mon, 'sig': signature(case) if nontrivial else None,
           'sample': {**{k: v for k, v in case.items() if k != 'cseed'},
                      'observed': info}}
    if viol:
        res['verdict'] = 'violated'
        res['violations'] = viol[:4]
    else:
        res['verdict'] = 'held' if nontrivial else 'skipped'
    return res
