"""C08 - Flow control is honoured both ways and never deadlocks.

Three monitors:
  tap : asyncssh<->asyncssh multi-channel sessions (the C07 workload biased to
        tiny windows) with the independent wire tap; a running-sum checker
        decides for every data packet that the sender stayed within the window
        delivered to it and within the peer's maximum packet size; progress is
        decided at quiescence (everything written was delivered).
  rx  : a hostile reference peer ignores the window asyncssh advertised (one
        oversized burst, or many in-window-sized packets without waiting for
        adjusts, also while the application has reading paused); exceeding the
        advertised window must end the connection with an error and the
        application must never be handed more than was advertised.
  tx  : asyncssh sends to a reference receiver that grants window in hostile
        patterns (0-adjusts, 1-byte adjusts, tiny max packet); the receiver's
        own exact accounting decides window and packet-size conformance and
        that all bytes arrive once enough window was granted.
"""

import asyncio
import hashlib
import random

from .. import import_asyncssh, apps, scen, vloop, tap as tapmod, flow, \
    hostile, refpeer, work, refssh as R
from . import c07

asyncssh = import_asyncssh()

ID = 'C08'
LEVEL = 'exploration'
RULE = ('tap cases: seeded C07-style scenarios with windows in {1,2,7,64,'
        '4096}; rx cases: (role, window, pktsize, reader read/paused, attack '
        'one_big/many/exact/oversize_pkt); tx cases: (role, initial window, '
        'max packet, adjust pattern, bytes written); non-trivial = the '
        'deciding monitor evaluated at least one data packet; distinct = '
        'distinct parameter signatures')
ASSUMPTIONS = ['tap allowance counts a WINDOW_ADJUST as known to the sender '
               'once the chunk containing it was delivered (sound, may be '
               'one chunk generous)',
               'oversize-but-within-window packets are not judged on receive '
               '(RFC 4254 lets the receiver be lenient)']
REQUIRED = ['tap_data_packets', 'tap_adjusts', 'rx_cases', 'rx_overrun_sent',
            'rx_paused_cases', 'tx_cases', 'tx_packets_checked',
            'progress_checked', 'line_reader_cases']
BUDGET_S = {'quick': 240, 'thorough': 3000}
CASE_TIMEOUT_S = 60


def gen_cases(tier, seed):
    rng = random.Random(f'c08-{seed}')
    cases = []
    ntap = 150 if tier == 'quick' else 6000
    nrx = 160 if tier == 'quick' else 4000
    ntx = 120 if tier == 'quick' else 4000

    base = c07.gen_cases('thorough' if tier == 'thorough' else 'quick',
                         seed + 1000)
    small = [c for c in base if c['srv_window'] <= 4096 or
             any(ch['window'] <= 4096 for ch in c['chans'])]
    for c in small[:ntap]:
        c = dict(c)
        c['kind'] = 'tap'
        cases.append(c)

    for k in range(nrx):
        window = rng.choice([1, 8, 100, 1000, 4096, 65536])
        pkt = rng.choice([1, 16, 500, 32768])
        role = rng.choice(['server', 'client'])
        attack = rng.choice(['one_big', 'many', 'many', 'exact',
                             'oversize_pkt', 'many_ext'])
        if attack == 'many_ext' and role == 'server':
            attack = 'many'     # only clients accept extended (stderr) data
        cases.append({'kind': 'rx', 'role': role,
                      'window': window, 'pkt': pkt,
                      'reader': rng.choice(['read', 'pause', 'pause']),
                      'attack': attack,
                      'chunk': rng.choice(['all', 'one', 'random',
                                           'record']),
                      'cseed': rng.randrange(1 << 30)})

    for k in range(ntx):
        cases.append({'kind': 'tx', 'role': rng.choice(['server', 'client']),
                      'window': rng.choice([0, 1, 5, 64, 1000]),
                      'pkt': rng.choice([1, 2, 7, 100, 32768]),
                      'pattern': rng.choice(['zeros_then_one', 'ones',
                                             'exact', 'big', 'late',
                                             'overflow']),
                      'size': rng.choice([1, 10, 300, 3000]),
                      'stderr': rng.random() < 0.3,
                      'chunk': rng.choice(['all', 'one', 'random',
                                           'record']),
                      'cseed': rng.randrange(1 << 30)})
    # the peer-chosen maximum packet size meets the off-by-one allowance for
    # peers calling themselves dropbear (applied when compression is on):
    # whatever size results, the sender must neither exceed it nor spin
    for role in ('server', 'client'):
        for pkt in (1, 2, 3):
            for pattern in ('ones', 'big'):
                cases.append({'kind': 'tx', 'role': role, 'window': 1000,
                              'pkt': pkt, 'pattern': pattern, 'size': 300,
                              'stderr': False, 'chunk': 'all',
                              'peer_kw': {'version':
                                          'SSH-2.0-dropbear_2020.81',
                                          'cmp': 'zlib@openssh.com'},
                              'cseed': 90 + pkt})

    # a receiver that reads *lines* with the stream API: a line longer than
    # its window comes out in pieces; as long as it keeps reading, the window
    # is replenished and every byte arrives, followed by EOF
    for role in ('client', 'server'):
        for window in (4096, 1000, 65536):
            for mult, tail in ((1, 0), (3, 123), (2, 1), (1, 17)):
                for how in ('readline', 'iter', 'readuntil'):
                    cases.append({'kind': 'lines', 'role': role,
                                  'window': window,
                                  'first': window * mult + tail,
                                  'how': how, 'chunk': 'all',
                                  'cseed': window + mult})
    return cases


def signature(case):
    if case['kind'] == 'tap':
        return 'tap-' + c07.signature(case)
    parts = tuple(sorted((k, str(v)) for k, v in case.items()
                         if k != 'cseed'))
    return hashlib.sha1(repr(parts).encode()).hexdigest()[:16]


# ------------------------------------------------------------------ tap

class _TapHooks:
    def __init__(self, mon):
        self.mon = mon
        self.tap = None
        self.fm = {}

    def setup(self, env):
        self.tap = tapmod.Tap(env.wire, keep_payloads=False)
        prev = env.wire.on_link

        def on_link(link):
            lt = self.tap.links.get(link.idx)
            if lt is None:
                lt = self.tap.links[link.idx] = tapmod.LinkTap(link, False)
            self.fm[link.idx] = flow.FlowMonitor(lt)
            if prev:
                prev(link)

        env.wire.on_link = on_link

    def finish(self, env, viol, mon):
        try:
            if not self.tap.ok:
                return
            for idx, fm in self.fm.items():
                lt = self.tap.links[idx]
                mon['tap_data_packets'] = mon.get('tap_data_packets', 0) + \
                    fm.data_packets
                mon['tap_adjusts'] = mon.get('tap_adjusts', 0) + \
                    fm.adjust_packets
                mon['tap_full_window_hits'] = \
                    mon.get('tap_full_window_hits', 0) + fm.full_window_hits
                mon['tap_max_pkt_hits'] = mon.get('tap_max_pkt_hits', 0) + \
                    fm.max_pkt_hits
                for v in fm.violations[:3]:
                    viol.append({'mechanism': 'sender_' + v['kind'],
                                 'detail': v})
                for pr in lt.problems[:2]:
                    viol.append({'mechanism': 'tap_' + pr['kind'],
                                 'detail': pr})
        finally:
            self.tap.close()


def _run_tap(case, mon, viol):
    hooks = _TapHooks(mon)
    res = c07.run_case(case, hooks=hooks)
    for k, v in res['mon'].items():
        if k.startswith('tap_'):
            mon[k] = mon.get(k, 0) + v
    mon['progress_checked'] += res['mon'].get('streams_compared', 0)
    for v in res.get('violations', []):
        # EOF/exit bookkeeping belongs to C07; C08 keeps flow-control,
        # completeness (progress) and hang findings
        if v['mechanism'] in ('eof_count', 'exit_status', 'callback_order',
                              'data_after_eof'):
            continue
        viol.append(v)
    return res


# ------------------------------------------------------------------ rx

async def _drain_incoming(peer, acct):
    """Account every WINDOW_ADJUST / close the peer has been sent so far"""

    while not peer.queue.empty():
        it = peer.queue.get_nowait()
        if it[0] in ('lost', 'eof'):
            peer.queue.put_nowait(it)
            acct['gone'] = True
            return
        if it[0] != 'packet':
            continue
        p = it[2]
        if p[0] == R.MSG_CHANNEL_WINDOW_ADJUST:
            r = R.Reader(p, 1)
            r.u32()
            acct['granted'] += r.u32()
        elif p[0] == R.MSG_DISCONNECT:
            acct['disconnect'] = p
        elif p[0] == R.MSG_CHANNEL_CLOSE:
            acct['closed'] = True


def _rx_plan(case, rng):
    w, pkt = case['window'], case['pkt']
    a = case['attack']
    if a == 'one_big':
        return [w + 1]
    if a == 'exact':
        return [w]
    if a == 'oversize_pkt':
        return [pkt + 1] if pkt + 1 <= w else [w]
    s = max(1, min(pkt, w))
    n = min(60, (3 * w) // s + 3)
    return [s] * n


def _run_rx(case, mon, viol):
    rng = random.Random(case['cseed'])
    plan = _rx_plan(case, rng)
    ext = case['attack'] == 'many_ext'
    mon['rx_cases'] += 1
    if case['reader'] == 'pause':
        mon['rx_paused_cases'] += 1

    async def main(loop):
        log = apps.EventLog()
        sessions = []
        pause_plan = [[1, None]] if case['reader'] == 'pause' else []
        acct = {'granted': case['window'], 'gone': False}
        sent_total = 0
        overrun_at = None

        if case['role'] == 'server':
            class Srv(apps.RecServer):
                def session_requested(self):
                    s = apps.RecServerSession(log, 's', pause_plan=pause_plan)
                    sessions.append(s)
                    return self.conn.create_server_channel(
                        encoding=None, window=case['window'],
                        max_pktsize=case['pkt']), s

            async with scen.Env(loop, server_factory=lambda: Srv(log),
                                chunking=case['chunk'],
                                seed=case['cseed']) as env:
                peer = await hostile.ref_client(env.wire)
                ch = await hostile.ref_client_exec(peer)
                await env.settle()
                app = sessions[0]
                owner_conn = env.wire.links[0].server
                sent_total, overrun_at = await _rx_attack(
                    env, peer, ch, plan, acct, ext, mon)
                await _rx_judge(env, case, app, owner_conn, acct, sent_total,
                                overrun_at, viol, peer, ext)
        else:
            async with scen.Env(loop, chunking=case['chunk'],
                                seed=case['cseed']) as env:
                env.acceptor.close()
                srv = hostile.RefServerScript(env.wire)
                await srv.listen()
                st = asyncio.ensure_future(srv.run_until_session())
                env.san.harness_tasks.add(st)
                conn = await env.connect(known_hosts=srv.known_hosts())
                chan, app = await conn.create_session(
                    lambda: apps.RecClientSession(log, 'c',
                                                  pause_plan=pause_plan),
                    'x', encoding=None, window=case['window'],
                    max_pktsize=case['pkt'])
                await srv.ready.wait()
                if srv.failed:
                    raise srv.failed
                await env.settle()
                peer = srv.peer
                ch = srv.chan
                acct['granted'] = ch['window']
                sent_total, overrun_at = await _rx_attack(
                    env, peer, ch, plan, acct, ext, mon)
                await _rx_judge(env, case, app, conn, acct, sent_total,
                                overrun_at, viol, peer, ext)

    scen.run(main)


async def _rx_attack(env, peer, ch, plan, acct, ext, mon):
    sent_total = 0
    overrun_at = None
    payload = apps.stream_bytes('rx', sum(plan))
    pos = 0
    for n in plan:
        await env.settle()
        await _drain_incoming(peer, acct)
        if acct.get('gone') or peer.closed:
            break
        piece = payload[pos:pos+n]
        pos += n
        if sent_total + n > acct['granted'] and overrun_at is None:
            overrun_at = {'sent_before': sent_total, 'packet': n,
                          'granted': acct['granted']}
            mon['rx_overrun_sent'] += 1
        if ext:
            peer.send(bytes([R.MSG_CHANNEL_EXTENDED_DATA]) +
                      R.u32(ch['remote_id']) + R.u32(1) + R.sstr(piece))
        else:
            peer.send(peer.channel_data(ch['remote_id'], piece))
        sent_total += n
    await env.settle()
    await _drain_incoming(peer, acct)
    return sent_total, overrun_at


async def _rx_judge(env, case, app, conn, acct, sent_total, overrun_at, viol,
                    peer, ext):
    delivered = app.nreceived(None) + app.nreceived(1)
    closed = conn.is_closed() if hasattr(conn, 'is_closed') else peer.closed

    if overrun_at is not None:
        if not closed and not peer.closed:
            mech = 'recv_window_overrun_accepted'
            if case['reader'] == 'pause':
                mech = 'recv_window_overrun_accepted_while_paused'
            viol.append({
                'mechanism': mech,
                'detail': f'{case["role"]}: advertised {overrun_at["granted"]}'
                          f' bytes, peer sent {sent_total}; first overrun '
                          f'{overrun_at}; connection still open, '
                          f'{delivered} bytes delivered to the application, '
                          f'reader={case["reader"]} attack={case["attack"]}'})
        if delivered > overrun_at['granted']:
            viol.append({
                'mechanism': 'recv_beyond_window_delivered',
                'detail': f'{delivered} bytes delivered, only '
                          f'{overrun_at["granted"]} ever advertised'})
    else:
        # conforming sender: nothing may be refused
        if closed or peer.closed:
            viol.append({'mechanism': 'conforming_sender_rejected',
                         'detail': f'{case}: sent {sent_total} <= granted '
                                   f'{acct["granted"]} yet connection ended '
                                   f'({acct.get("disconnect", b"")[:80]!r})'})
        elif case['reader'] == 'read' and delivered != sent_total:
            viol.append({'mechanism': 'conforming_data_not_delivered',
                         'detail': f'{delivered} of {sent_total}'})

    for ev in env.san.drain():
        viol.append({'mechanism': 'sanitizer_' + ev['kind'], 'detail': ev})


# ------------------------------------------------------------------ tx

def _tx_adjusts(case, need):
    p = case['pattern']
    if p == 'zeros_then_one':
        return [0, 0, 0] + [1] * 6 + [need]
    if p == 'ones':
        return [1] * 12 + [need]
    if p == 'exact':
        return [max(0, need - case['window'])]
    if p == 'big':
        return [need * 3 + 7]
    if p == 'late':
        return [0, need]
    return [0xffffffff]           # overflow: window + adjust > 2^32-1


def _peer_kw(case):
    kw = dict(case.get('peer_kw') or {})
    if 'version' in kw:
        kw['version'] = kw['version'].encode()
    if 'cmp' in kw:
        kw['cmp'] = [kw['cmp'].encode()]
    return kw


def _run_tx(case, mon, viol):
    mon['tx_cases'] += 1
    # the allowance makes the effective limit one less than announced
    eff_pkt = case['pkt'] - (1 if case.get('peer_kw') else 0)
    meter = work.WorkMeter() if case.get('peer_kw') else None
    size = case['size']
    data = apps.stream_bytes('tx', size)
    ext = case['stderr'] and case['role'] == 'server'

    async def main(loop):
        log = apps.EventLog()
        sessions = []
        got = bytearray()
        state = {'granted': case['window'], 'recv': 0, 'eof': False,
                 'closed': False}

        def on_data(p):
            r = R.Reader(p, 1)
            r.u32()
            if p[0] == R.MSG_CHANNEL_EXTENDED_DATA:
                r.u32()
            d = r.str()
            mon['tx_packets_checked'] += 1
            state['recv'] += len(d)
            got.extend(d)
            if len(d) > case['pkt']:
                viol.append({'mechanism': 'sender_max_packet_exceeded',
                             'detail': f'{len(d)} > {case["pkt"]}'})
            if not d and len(viol) < 3:
                viol.append({'mechanism': 'empty_data_packet_sent',
                             'detail': f'announced packet size '
                                       f'{case["pkt"]}'})
            if state['recv'] > state['granted']:
                viol.append({'mechanism': 'sender_window_exceeded',
                             'detail': f'received {state["recv"]} bytes, '
                                       f'granted {state["granted"]}'})

        async def pump(peer):
            while not peer.queue.empty():
                it = peer.queue.get_nowait()
                if it[0] in ('lost', 'eof'):
                    peer.queue.put_nowait(it)
                    state['closed'] = True
                    return
                if it[0] == 'error':
                    viol.append({'mechanism': 'wire_format',
                                 'detail': it[1]})
                    continue
                if it[0] != 'packet':
                    continue
                p = it[2]
                if p[0] in (R.MSG_CHANNEL_DATA, R.MSG_CHANNEL_EXTENDED_DATA):
                    on_data(p)
                elif p[0] == R.MSG_CHANNEL_EOF:
                    state['eof'] = True
                elif p[0] == R.MSG_CHANNEL_CLOSE:
                    state['closed'] = True

        async def drive(env, peer, ch, write):
            await env.settle()
            if meter is not None:
                meter.install()
                meter.new_input(size)
            try:
                write()
                await env.settle()
                await pump(peer)
                for adj in _tx_adjusts(case, size):
                    if peer.closed or state['closed']:
                        break
                    peer.send(bytes([R.MSG_CHANNEL_WINDOW_ADJUST]) +
                              R.u32(ch['remote_id']) + R.u32(adj))
                    state['granted'] += adj
                    await env.settle()
                    await pump(peer)
                await env.settle()
                await pump(peer)
            finally:
                # (a spin inside a loop callback ends the whole run with
                # WorkBudgetExceeded; run_case reports that)
                if meter is not None:
                    meter.armed = False
                    meter.uninstall()

        if case['role'] == 'server':
            class Srv(apps.RecServer):
                def session_requested(self):
                    s = apps.RecServerSession(log, 's')
                    sessions.append(s)
                    return self.conn.create_server_channel(encoding=None), s

            async with scen.Env(loop, server_factory=lambda: Srv(log),
                                chunking=case['chunk'],
                                seed=case['cseed']) as env:
                peer = await hostile.ref_client(env.wire, **_peer_kw(case))
                try:
                    ch = await hostile.ref_client_exec(
                        peer, window=case['window'], pktsize=case['pkt'])
                except (R.RefError, refpeer.PeerClosed):
                    if eff_pkt <= 0:
                        # a size nothing can be sent with: refusing is fine
                        mon['tx_refused_unusable_size'] = \
                            mon.get('tx_refused_unusable_size', 0) + 1
                        mon['tx_packets_checked'] += 1
                        return
                    raise
                app = sessions[0]

                def write():
                    if ext:
                        app.chan.write_stderr(data)
                    else:
                        app.chan.write(data)
                    app.chan.write_eof()

                await drive(env, peer, ch, write)
                conn = env.wire.links[0].server
                _tx_judge(case, state, got, data, conn, viol, mon)
                for ev in env.san.drain():
                    viol.append({'mechanism': 'sanitizer_' + ev['kind'],
                                 'detail': ev})
        else:
            async with scen.Env(loop, chunking=case['chunk'],
                                seed=case['cseed']) as env:
                env.acceptor.close()
                srv = hostile.RefServerScript(env.wire, window=case['window'],
                                              pktsize=case['pkt'],
                                              **_peer_kw(case))
                await srv.listen()
                st = asyncio.ensure_future(srv.run_until_session())
                env.san.harness_tasks.add(st)
                conn = await env.connect(known_hosts=srv.known_hosts())
                try:
                    chan, app = await conn.create_session(
                        lambda: apps.RecClientSession(log, 'c'), 'x',
                        encoding=None)
                except asyncssh.Error:
                    if eff_pkt <= 0:
                        mon['tx_refused_unusable_size'] = \
                            mon.get('tx_refused_unusable_size', 0) + 1
                        mon['tx_packets_checked'] += 1
                        st.cancel()
                        await asyncio.gather(st, return_exceptions=True)
                        env.san.drain()
                        return
                    raise
                await srv.ready.wait()
                if srv.failed:
                    raise srv.failed

                def write():
                    chan.write(data)
                    chan.write_eof()

                await drive(env, srv.peer, srv.chan, write)
                _tx_judge(case, state, got, data, conn, viol, mon)
                for ev in env.san.drain():
                    viol.append({'mechanism': 'sanitizer_' + ev['kind'],
                                 'detail': ev})

    scen.run(main)


def _tx_judge(case, state, got, data, conn, viol, mon):
    mon['progress_checked'] += 1
    if case['pattern'] == 'overflow':
        # total window beyond 2^32-1 is outside RFC 4254; either outcome is
        # fine as long as nothing beyond the grant was sent (checked above)
        return
    if state['granted'] >= len(data):
        if bytes(got) != data:
            viol.append({'mechanism': 'send_stalled_or_corrupt',
                         'detail': f'{case}: window granted '
                                   f'{state["granted"]} >= {len(data)} '
                                   f'written, but {len(got)} bytes arrived; '
                                   f'{apps.diagnose(data, bytes(got))}'})
        elif not state['eof']:
            viol.append({'mechanism': 'eof_not_sent_after_drain',
                         'detail': str(case)})


def _run_lines(case, mon, viol):
    data = b'A' * case['first'] + b'\nsecond line\n' + b'B' * 300 + \
        b'\nlast, unterminated'
    out = {}

    async def consume(reader):
        buf = bytearray()
        empties = 0
        it = reader.__aiter__()
        while not reader.at_eof():
            if case['how'] == 'readline':
                piece = await reader.readline()
            elif case['how'] == 'iter':
                try:
                    piece = await it.__anext__()
                except StopAsyncIteration:
                    piece = b''
            else:
                try:
                    piece = await reader.readuntil(b'\n')
                except asyncio.IncompleteReadError as exc:
                    piece = exc.partial
            buf += piece
            empties = empties + 1 if not piece else 0
            if empties > 50:
                out['spin'] = len(buf)
                break
        out['got'] = bytes(buf)

    async def main(loop):
        async def srv_reader(process):
            await consume(process.stdin)
            process.exit(0)

        async def srv_writer(process):
            process.stdout.write(data)
            process.exit(0)

        role = case['role']
        sopts = {'process_factory': srv_writer if role == 'client'
                 else srv_reader, 'encoding': None}
        if role == 'server':
            sopts['window'] = case['window']
        async with scen.Env(loop, server_factory=lambda: apps.RecServer(
                apps.EventLog()), chunking=case['chunk'], seed=case['cseed'],
                server_opts=sopts) as env:
            conn = await env.connect()
            if role == 'client':
                proc = await conn.create_process('x', encoding=None,
                                                 window=case['window'])
                t = asyncio.ensure_future(consume(proc.stdout))
            else:
                proc = await conn.create_process('x', encoding=None)
                proc.stdin.write(data)
                proc.stdin.write_eof()
                t = asyncio.ensure_future(proc.wait())
            env.san.harness_tasks.add(t)
            await env.settle()
            mon['line_reader_cases'] += 1
            mon['progress_checked'] += 1
            what = f'{role} reading with {case["how"]}, window ' \
                   f'{case["window"]}, first line {case["first"]} bytes'
            if 'spin' in out:
                viol.append({'mechanism': 'reader_returns_empty_before_eof',
                             'detail': f'{what}: more than 50 empty results '
                                       f'in a row without EOF after '
                                       f'{out["spin"]} of {len(data)} '
                                       f'bytes'})
            elif not t.done():
                viol.append({'mechanism': 'stalled_although_reader_reads',
                             'detail': f'{what}: the transfer is stuck at '
                                       f'quiescence'})
            elif out.get('got') != data:
                viol.append({'mechanism': 'stalled_although_reader_reads',
                             'detail': f'{what}: {len(out.get("got", b""))} '
                                       f'of {len(data)} bytes delivered '
                                       f'before EOF'})
            if not t.done():
                t.cancel()
            await asyncio.gather(t, return_exceptions=True)
            conn.abort()
            await env.settle()
            env.san.drain()

    scen.run(main)


def run_case(case):
    mon = {k: 0 for k in REQUIRED}
    viol = []
    sample = {k: v for k, v in case.items() if k not in ('cseed', 'chans')}

    try:
        if case['kind'] == 'tap':
            res = _run_tap(case, mon, viol)
            sample = dict(res.get('sample') or {}, kind='tap',
                          tap_data_packets=mon['tap_data_packets'])
        elif case['kind'] == 'lines':
            _run_lines(case, mon, viol)
        elif case['kind'] == 'rx':
            _run_rx(case, mon, viol)
        else:
            _run_tx(case, mon, viol)
    except vloop.QuiescentHang as exc:
        viol.append({'mechanism': 'hang', 'detail': f'{case["kind"]}: {exc}'})
    except work.WorkBudgetExceeded:
        # the meter broke a spin inside a loop callback
        mon['tx_packets_checked'] += 1
        viol.append({'mechanism': 'work_budget_exceeded',
                     'detail': f'sending to a peer that announced maximum '
                               f'packet size {case.get("pkt")} '
                               f'({case.get("peer_kw")}) never finished'})
    finally:
        try:
            import sys
            sys.monitoring.free_tool_id(work.TOOL)
        except Exception:       # pylint: disable=broad-except
            pass

    nontrivial = (mon['tap_data_packets'] or mon['rx_cases'] or
                  mon['tx_packets_checked'] or mon['line_reader_cases'])
    res = {'mon': mon, 'sig': signature(case) if nontrivial else None,
           'sample': sample}
    seen = set()
    uniq = []
    for v in viol:
        if v['mechanism'] not in seen:
            seen.add(v['mechanism'])
            uniq.append(v)
    res['verdict'] = 'violated' if uniq else 'held'
    if uniq:
        res['violations'] = uniq
    return res
