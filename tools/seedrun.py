#!/usr/bin/env python3
"""Run the registered checks against every kept seeded change, the way the
brief prescribes: apply the patch to /repo, run, undo straight afterwards.

usage: tools/seedrun.py [name ...]      (default: every /verif/seeded/*)
Updates seeded/<name>/meta.json: 'final' = {head, check, rc, caught,
mechanisms}.  /repo is always restored (git checkout -- .), also on errors."""

import glob
import json
import os
import re
import subprocess
import sys
import time

VERIF = os.path.dirname(os.path.dirname(os.path.abspath(__file__)))


def sh(cmd):
    return subprocess.run(cmd, shell=True, capture_output=True, text=True)


def main():
    names = sys.argv[1:] or sorted(
        os.path.basename(d) for d in glob.glob(os.path.join(VERIF, 'seeded',
                                                            '*')))
    if sh('git -C /repo status --porcelain --untracked-files=no').stdout:
        print('/repo has local modifications; refusing')
        return 2
    head = sh('git -C /repo rev-parse --short HEAD').stdout.strip()
    for name in names:
        d = os.path.join(VERIF, 'seeded', name)
        mp = os.path.join(d, 'meta.json')
        meta = json.load(open(mp))
        own = meta.get('property') or name.split('-')[0]
        checks = [own] + [c for c in meta.get('extra_checks', [])]
        r = sh(f'git -C /repo apply {os.path.join(d, "patch.diff")}')
        if r.returncode:
            r = sh(f'git -C /repo apply --3way {os.path.join(d, "patch.diff")}')
        if r.returncode:
            # (a failed 3-way apply leaves unmerged paths behind)
            sh('git -C /repo reset -q --hard HEAD')
            meta['final'] = {'head': head, 'applies': False,
                             'error': r.stderr[-200:]}
            json.dump(meta, open(mp, 'w'), indent=1)
            print(name, 'PATCH DOES NOT APPLY')
            continue
        try:
            fin = {'head': head, 'applies': True, 'checks': {}}
            for cid in checks:
                t0 = time.time()
                try:
                    p = subprocess.run(
                        [os.path.join(VERIF, 'check'), cid, '--no-evidence'],
                        cwd=VERIF, capture_output=True, text=True,
                        timeout=3000)
                    out = p.stdout + p.stderr
                    fin['checks'][cid] = {
                        'rc': p.returncode,
                        'caught': p.returncode == 1 and 'VIOLATION' in out,
                        'mechanisms': sorted(set(re.findall(
                            r'violation mechanism=(\S+)', out)))[:6],
                        'secs': round(time.time() - t0, 1)}
                except subprocess.TimeoutExpired:
                    fin['checks'][cid] = {'rc': 'timeout', 'caught': False}
            fin['caught_by'] = sorted(c for c, v in fin['checks'].items()
                                      if v.get('caught'))
            meta['final'] = fin
            json.dump(meta, open(mp, 'w'), indent=1)
            print(name, fin['caught_by'] or 'MISSED',
                  {c: v.get('mechanisms') for c, v in fin['checks'].items()})
        finally:
            sh('git -C /repo checkout -- .')
            sh('git -C /repo reset -q --hard HEAD')
    return 0


if __name__ == '__main__':
    sys.exit(main())
