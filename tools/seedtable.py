#!/usr/bin/env python3
"""Print the seeded-change table (markdown) from /verif/seeded/*/meta.json"""

import glob
import json
import os
import re

VERIF = os.path.dirname(os.path.dirname(os.path.abspath(__file__)))


def first_lines(path, n=1):
    try:
        with open(path) as f:
            txt = f.read()
    except OSError:
        return ''
    for line in txt.splitlines():
        line = line.strip()
        if line and not line.startswith('#') and not line.startswith('```'):
            return line
    return ''


def main():
    rows = []
    for d in sorted(glob.glob(os.path.join(VERIF, 'seeded', '*'))):
        mp = os.path.join(d, 'meta.json')
        if not os.path.exists(mp):
            continue
        m = json.load(open(mp))
        files = ', '.join(re.sub(r'\s*\|.*', '', f).strip().replace(
            'asyncssh/', '') for f in m.get('files', []))
        own = m['name'].split('-')[0]
        fin = m.get('final', {})
        caught = fin.get('caught_by', [])
        mech = ''
        if own in fin.get('checks', {}):
            mech = ', '.join(fin['checks'][own].get('mechanisms', [])[:2])
        others = sorted(set(c for c in list(caught) + m.get('caught_by', [])
                            if c != own))
        rows.append((m['name'], str(m.get('round', 1)), files,
                     'yes' if m.get('valid') else 'NO',
                     m.get('first_run', ''),
                     'caught' if own in caught else 'MISSED', mech,
                     ','.join(others), m.get('strengthened', '')))
    print('| seed | round | file | valid | first run | final (own check) | '
          'mechanism reported | also caught by | what was strengthened |')
    print('|---|---|---|---|---|---|---|---|---|')
    for r in rows:
        print('| ' + ' | '.join(r) + ' |')


if __name__ == '__main__':
    main()
