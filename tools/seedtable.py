#!/usr/bin/env python3
"""Print the seeded-change table (markdown) from /verif/seeded/*/meta.json"""

import glob
import json
import os
import re

VERIF = os.path.dirname(os.path.dirname(os.path.abspath(__file__)))


def first_lines(path, n=1):
    try:
        with open(path) as f:
            txt = f.read()
    except OSError:
        return ''
    for line in txt.splitlines():
        line = line.strip()
        if line and not line.startswith('#') and not line.startswith('```'):
            return line
    return ''


def main():
    rows = []
    for d in sorted(glob.glob(os.path.join(VERIF, 'seeded', '*'))):
        mp = os.path.join(d, 'meta.json')
        if not os.path.exists(mp):
            continue
        m = json.load(open(mp))
        files = ', '.join(re.sub(r'\s*\|.*', '', f).strip().replace(
            'asyncssh/', '') for f in m.get('files', []))
        own = m['name'].split('-')[0]
        caught = m.get('caught_by', [])
        mech = ''
        if own in m.get('checks', {}):
            mech = ', '.join(m['checks'][own].get('mechanisms', [])[:3])
        others = [c for c in caught if c != own]
        note = m.get('note', '')
        rows.append((m['name'], files, 'yes' if m.get('valid') else 'NO',
                     'caught' if own in caught else 'MISSED', mech,
                     ','.join(others), note))
    print('| seed | file | valid | own check | mechanism reported | also '
          'caught by | note |')
    print('|---|---|---|---|---|---|---|')
    for r in rows:
        print('| ' + ' | '.join(r) + ' |')


if __name__ == '__main__':
    main()
