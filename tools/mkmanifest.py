#!/usr/bin/env python3
"""Regenerates MANIFEST.json from the table below (run from /verif)."""

import json
import os

ROOT = os.path.dirname(os.path.dirname(os.path.abspath(__file__)))

ALL = [f'C{i:02d}' for i in range(1, 21)]

CHECKS = {
    'C01': dict(
        level='fault_enumeration',
        technique='runtime monitoring under fault injection: record-level '
                  'MITM tamper operators on an in-memory wire, prefix oracle '
                  'fed by an independent wire tap, owner error-class check, '
                  'runtime contract on MAC.verify',
        text='For every negotiable cipher and MAC class and both directions, '
             'tamper operators (bit flips per field, truncation+EOF, drop, '
             'duplicate, swap, splice, insert) are applied to encrypted '
             'records at several positions; the receiving application must '
             'have been handed exactly the bytes carried by records before '
             'the altered one, and its owner must be told an integrity/'
             'protocol error (plain loss only for stalls); the sender of an '
             'altered stream must not see a clean close; a contract on the '
             'real MAC check (full-length tag equal to sign()) is active in '
             'every execution; prefix truncation must be noticed.',
        note='trusted: harness MITM, refssh tap for record contents; UMAC '
             'cases judged by prefix-ness + error class only',
        design='3/C01'),
    'C02': dict(
        level='exploration',
        technique='runtime monitoring with an independent second '
                  'implementation: reference SSH peer (own kex/key '
                  'derivation/codec) in both roles, passive wire-tap decoder, '
                  'real OpenSSH client, segmentation differential',
        text='Every packet asyncssh emits in the explored sessions is '
             'decoded by an independent RFC 4253 implementation that checks '
             'length, padding >= 4, alignment and MAC/tag over its own '
             'sequence counter with keys it derived itself; asyncssh accepts '
             'what the reference builds; payloads are compared end to end '
             'under 6 segmentations; the OpenSSH 9.2 client covers the '
             'shared algorithm matrix incl. UMAC.',
        note='trusted: vf/refssh.py + vf/refpeer.py (no asyncssh imports), '
             'cryptography/OpenSSL primitives, OpenSSH 9.2 client',
        design='3/C02'),
    'C09': dict(
        level='fault_enumeration',
        technique='runtime monitoring under crash-point enumeration: '
                  'scripts re-run with the transport cut / an orderly close '
                  'injected at every record boundary of their reference '
                  'trace (virtual time, quiescence detection), caller-side '
                  'tracking of every API call, callback-order automata',
        text='For generated operation scripts over up to 4 channels '
             '(sessions, processes, run(), direct-tcpip, SFTP; server '
             'echo/exit/close/abort/hang/slow-open) every record boundary '
             'of the reference trace is used as a crash point (cut both '
             'ways, EOF one way, intra-record, or close/abort/disconnect '
             'issued at that moment); at quiescence no tracked call may be '
             'pending, callback logs must follow the legal grammar with '
             'connection_lost exactly once, no channel may stay registered '
             'on a closed connection, no library task may be left.',
        note='trusted: quiescence detector of the virtual-time loop; '
             'harness releases all of its own gates before judging',
        design='3/C09'),
    'C10': dict(
        level='exploration',
        technique='runtime monitoring: deterministic work meter '
                  '(sys.monitoring function-entry + output-byte budgets '
                  'linear in delivered input, breaks spins), asyncio '
                  'sanitizer, owner/bystander monitors, documented-'
                  'exception table for parsers',
        text='Raw pre-encryption byte strings, an authenticated reference '
             'peer sending every message class with extreme numeric fields, '
             'and mutated / impossible-parameter encodings fed to the '
             'parsers are executed under a linear work budget; nothing may '
             'reach the loop exception handler, owners must be told once, '
             'a bystander connection must keep working, parsers may only '
             'raise their documented error; applications write multi-byte '
             'text and read lines, a client with X11 forwarding gets '
             'hostile connection-setup prefixes.',
        note='trusted: budget constants (400k calls + 400/byte; benign '
             'sessions need < 20k); only library code is counted',
        design='3/C10'),
    'C11': dict(
        level='exploration',
        technique='runtime monitoring: wire tap with per-exchange key '
                  'derivation + C07 stream oracle across forced rekeys '
                  '(bytes, virtual-time seconds, both sides), scripted '
                  'reference peer rekeys, OpenSSH RekeyLimit runs',
        text='Across thousands of observed re-exchanges (either side, both '
             'at once, by time) no channel byte is lost/duplicated/'
             'reordered; between KEXINIT and NEWKEYS only kex/transport '
             'messages appear on the wire; post-NEWKEYS traffic decodes only '
             'with keys derived from the new (K,H) and the original session '
             'id; every exchange has a distinct (K,H); key exchanges that '
             'follow each other without connection-layer traffic are '
             'reported as a re-key loop (logical-step progress monitor).',
        note='trusted: refssh codec; (K,H) capture from send_newkeys '
             'arguments for the passive tap (the active reference peer needs '
             'no capture)',
        design='3/C11'),
    'C03': dict(
        level='fault_enumeration',
        technique='runtime monitoring under fault injection: cleartext '
                  'handshake MITM with covered/uncovered edit classification, '
                  'independent first-match negotiation oracle',
        text='For every non-GSS kex method, field-level and byte-level edits '
             'of version strings, both KEXINITs, every KEX* message, public '
             'values (range / invalid encodings) and the host key are '
             'injected; covered edits must make connect() fail and the '
             'server drop; uncovered edits may complete only with equal '
             'session ids and reference-negotiated algorithms; random '
             'preference lists are negotiated against the reference '
             'first-match function; an active impostor (foreign key, plain '
             'or in a certificate of an unknown CA) is run against every '
             'shape of client trust data.',
        note='trusted: edit classification per RFC 4253/4419/5656/8731, '
             'refssh KEXINIT parser/negotiator',
        design='3/C03'),
    'C04': dict(
        level='exploration',
        technique='runtime monitoring: generated known_hosts with ground '
                  'truth by construction + reference trust model, wire tap '
                  'for "no credentials before the decision", lying '
                  'reference-peer server',
        text='For generated trust files (markers, wildcard/negated/CIDR/'
             'hashed/[host]:port patterns), targets and server credentials '
             '(keys, host certificates around validity boundaries, wrong '
             'type/principal/CA, revoked keys/CAs) connect() succeeds '
             'exactly when the reference model accepts; on refusal the error '
             'is a host-key/kex error and the tap shows no NEWKEYS / service '
             '/ auth request from the client; servers that sign with another '
             'key, another hash or present altered certificates are '
             'refused; one loaded known_hosts object decides several '
             'connections as fresh ones would; a destination behind a jump '
             'host is judged by its name only.',
        note='trusted: the 60-line reference trust model; fixed clock '
             'substituted for asyncssh.public_key.time',
        design='3/C04'),
    'C05': dict(
        level='exploration',
        technique='runtime monitoring: scripted hostile client histories '
                  'against a server with recording (sync / gated-async) '
                  'validators, reference authentication model over the '
                  'recorded decisions, behavioural restriction probes, '
                  'positive logins incl. ssh-agent and OpenSSH client',
        text='For generated USERAUTH histories (methods, users, signature '
             'defects, pipelining, validator completion orders) the user a '
             'connection ends up authenticated as must have an accepted '
             'credential event of its own; clean valid credentials are '
             'admitted; nothing of the connection protocol is accepted '
             'before success; restrictions enforced afterwards equal those '
             'of the accepted credential (authorized_keys options and '
             'certificate permit sets, probed behaviourally); an agent that '
             'declines to sign does not stop the next valid key.',
        note='trusted: the reference model treats application validators as '
             'the authority; reference peer signs deliberately wrong data',
        design='3/C05'),
    'C06': dict(
        level='fault_enumeration',
        technique='runtime monitoring under fault injection: reference peer '
                  'as hostile endpoint injecting message type x position x '
                  'form x strict-KEX, differential against a reference '
                  'dialogue, reply-type monitor, strict-KEX / Terrapin / '
                  'unsolicited-success scenarios',
        text='At every position of the handshake and authentication '
             'dialogue, in both roles, an extra message of each type is '
             'sent; out-of-phase or wrong-role messages may only end the '
             'connection or be answered UNIMPLEMENTED/ignored with an '
             'application-visible outcome identical to the reference run; '
             'strict-KEX fatal cases, sequence reset, prefix-truncation and '
             'success-without-request are decided by dedicated scenarios.',
        note='trusted: conservative out-of-phase table; reference peer',
        design='3/C06'),
    'C07': dict(
        level='exploration',
        technique='runtime monitoring: self-identifying payload streams + '
                  'callback-order automaton over seeded multi-channel '
                  'sessions on an in-memory wire with virtual time',
        text='Every byte/character written on 1..8 concurrent channels '
             '(stdin/stdout/stderr, callback and stream API) is compared '
             'with what the receiving session was handed; EOF count/order, '
             'exit status, callback order and the asyncio sanitizer layer '
             'are checked at quiescence.  Held on the executions listed in '
             'the evidence, nothing more.',
        note='trusted: CPython, harness wire (byte-order preserving pipes), '
             'the payload comparison; only clean-close scenarios assert '
             'completeness',
        design='3/C07'),
    'C08': dict(
        level='exploration',
        technique='runtime monitoring: running-sum flow-control checker over '
                  'an independent wire tap + hostile reference peer that '
                  'ignores/abuses windows, quiescence-based progress oracle',
        text='Sender side: every data packet on the tapped wire is within '
             'the window delivered to the sender and the peer max packet '
             'size.  Receiver side: a reference peer overruns the '
             'advertised window (also while reading is paused) and the '
             'connection must end with an error.  Progress: with a reading '
             'receiver (chunks, or lines longer than its window) everything '
             'written arrives by quiescence; packet sizes 1-3 combined with '
             'the dropbear allowance are sent to under a work meter.',
        note='trusted: independent RFC 4253 codec in vf/refssh.py (built on '
             'cryptography/hashlib only), key capture from send_newkeys '
             'arguments for the passive tap',
        design='3/C08'),
    'C12': dict(
        level='exploration',
        technique='runtime monitoring against a scripted reference SFTP '
                  'server (raw protocol, in-memory files) that reorders '
                  'replies, serves short reads, injects per-block failures, '
                  'size lies and early EOF; byte-comparison oracle; sparse '
                  'and OpenSSH sftp legs against the real server',
        text='get/put/copy and SFTPClientFile read/write over sizes around '
             'block and request-count boundaries, block sizes 1..16384, '
             '1..128 parallel requests, all reply orders of batches up to 8, '
             'short-read splits down to one byte and SFTP versions 3-6: a '
             'normal return implies destination == source; a served block '
             'failure or a source ending before its announced size (non-'
             'sparse) implies an exception; sparse layouts incl. trailing '
             'holes are reproduced; OpenSSH sftp get/put compared by bytes; '
             'sequences of positioned / unpositioned reads and writes, '
             'seek, tell and truncate on one remote file object (binary and '
             'text mode, append) agree with a byte-array model.',
        note='trusted: vf/sftpref.py reference server (no asyncssh SFTP '
             'code); a server returning more than requested is outside the '
             'fault model',
        design='3/C12'),
    'C13': dict(
        level='exploration',
        technique='runtime monitoring with a filesystem monitor (Python '
                  'audit hook + os.stat-family wrappers, realpath at event '
                  'time, enforcing containment) under hostile SFTP request '
                  'histories, hostile directory listings and hostile SCP '
                  'record sequences',
        text='Every filesystem call made while the chrooted SFTP server '
             'handles raw request histories (structure built through the '
             'protocol, then all path-carrying request types over a '
             'traversal grammar), and every modifying call made during '
             'recursive SFTP get/mget and SCP downloads from hostile peers, '
             'is resolved to where the kernel would go and must lie inside '
             'the root / the destination; secrets outside must never be '
             'returned and nothing outside may change (also with '
             'preserve=True and a destination the call creates).',
        note='trusted: vf/fsmon.py (audit events + wrappers); modifying '
             'calls outside the allowed root are recorded and then blocked, '
             'because the hostile workload runs in the checking process',
        design='3/C13'),
    'C14': dict(
        level='exploration',
        technique='runtime monitoring: request/response log checker at SFTP '
                  'framing level (per-id multiset, legal-type table, status '
                  'mapping) with a raw client against the real server and a '
                  'scripted hostile server against the real client; '
                  'round-trip oracle for the attribute codec',
        text='Every request type in versions 3-6, intact, truncated at '
             'sampled/all points, with trailing bytes, unknown types and '
             'extended names, pipelined: exactly one response per id, of a '
             'legal type, no unsolicited ids, the session stays usable; '
             'concurrent client calls each receive their own reply in every '
             'reply order and fail cleanly on unknown/duplicate/wrong-type '
             'replies; SFTPAttrs/SFTPName survive encode/decode for the '
             'fields each version can carry (all 2^5 v3 subsets).',
        note='trusted: vf/sftpref.py framing and legal-type table (from the '
             'filexfer drafts)',
        design='3/C14'),
    'C15': dict(
        level='exploration',
        technique='runtime monitoring by round-trip and differential '
                  'oracles: asyncssh export/import vs PyCA loaders, '
                  'ssh-keygen and openssl on generated keys, formats, '
                  'ciphers, hashes, PBE versions, passphrases and comments',
        text='Every generatable key type is exported in every private/'
             'public format x cipher x hash x PBE version x passphrase class '
             'and re-imported (equality, public half, comment, wrong '
             'passphrase refused, documented refusals honoured); outputs are '
             'read by PyCA, ssh-keygen and openssl and theirs by asyncssh; '
             'certificates are compared field by field with ssh-keygen -L; '
             'multi-key and key+certificate files are exercised.',
        note='trusted: PyCA, OpenSSH 9.2 ssh-keygen, openssl as independent '
             'implementations; a failing tool only counts when it reads a '
             'reference file of the same container',
        design='3/C15'),
    'C16': dict(
        level='fault_enumeration',
        technique='runtime monitoring: boolean verify oracles over '
                  'systematic single-byte edits, certificate validity grids '
                  'on a substituted clock, hand-built certificates, SSHSIG '
                  'cross-checks with ssh-keygen -Y and PyCA',
        text='Signatures of every key type x algorithm verify and fail for '
             'every sampled/enumerated edit of data, signature blob, key and '
             'algorithm name (ECDSA/DSA re-encodings of the same (r,s) '
             'excluded); certificates are accepted only inside the window, '
             'with matching type, listed principal, known critical options '
             'and an intact CA signature; SSHSIG validation agrees with '
             'ssh-keygen -Y for message, namespace, principal, validity and '
             'signer authorisation, also when one loaded allowed-signers '
             'object is asked at different times; the certificate rules '
             'hold where certificates are used (host and user certificates '
             'over connections, CA from a file or vouched for by the '
             'application callback).',
        note='trusted: PyCA and ssh-keygen as cross-checks; clock '
             'substituted for asyncssh.public_key.time / sshsig.time',
        design='3/C16'),
    'C17': dict(
        level='exploration',
        technique='runtime monitoring: reference matcher written from the '
                  'OpenSSH file-format documentation + metamorphic relations '
                  '+ ssh-keygen -F cross-check over generated known_hosts / '
                  'authorized_keys data and queries',
        text='match_known_hosts and SSHAuthorizedKeys.validate results are '
             'compared with the reference matcher for generated pattern '
             'lists (wildcards, negation, CIDR, hashed, [host]:port with '
             'fallback, markers) and option strings (quoting, escapes, '
             'commas, repeats, from=, principals=); line permutation, '
             'duplication, hashing and insertion of damaged key lines (bad '
             'base64, truncated, unknown algorithm, impossible parameters) '
             'must not change results.',
        note='trusted: the reference matcher (cross-validated against '
             'ssh-keygen -F on every run)',
        design='3/C17'),
    'C18': dict(
        level='exploration',
        technique='runtime monitoring by differential testing against the '
                  'real ssh binary (ssh -G) on generated configurations, '
                  'token table validated through Match exec, first-match '
                  'reference model and hostile user names for the server '
                  'half',
        text='Generated ssh_config programs (Host/Match blocks with '
             'negation and several criteria, Hostname rewrites, = and quote '
             'spellings, repeated and accumulating keys, Include globs and '
             'nesting, tokens, ${ENV}) resolve in asyncssh to what ssh -G '
             'prints for 44 options; server configs follow the first-match '
             'model and a %u template is never expanded with a user name '
             'that could change the meaning of the path; a resolution '
             'through a reused options object equals the fresh one.',
        note='trusted: OpenSSH 9.2 ssh -G; no sshd is available, so the '
             'server half rests on the reference model',
        design='3/C18'),
    'C19': dict(
        level='exploration',
        technique='runtime monitoring: reference reader model over the sent '
                  'stream, same read script under several packetisations '
                  'and wire chunkings, run()/redirect/drain oracles',
        text='read/readexactly/readuntil/readline results are decided by a '
             'reference reader and compared across packetisations; '
             'run()/wait() output completeness, redirection targets (set '
             'at creation or late, files, pipes, async files, other '
             'processes in both directions), drain() return condition and '
             'signal position in the stream are checked.',
        note='trusted: the 60-line reference reader (leftmost regex match on '
             'the whole remaining stream)',
        design='3/C19'),
    'C20': dict(
        level='exploration',
        technique='runtime monitoring: recording endpoints on real loopback '
                  'TCP/UNIX sockets at both ends of every forward, '
                  'per-connection stream identity and pairing, permission '
                  'grid oracle, /proc socket census, cuts of the in-memory '
                  'SSH wire at record boundaries',
        text='Self-identifying streams are pushed through local, remote, '
             'SOCKS4/4a/5 and direct-API forwards over TCP and UNIX sockets '
             'in every half-close/close/abort order (peer answering only '
             'after the EOF), with delayed confirmations, hostile SOCKS '
             'clients and connection loss incl. between forward request and '
             'reply; permission decisions are judged against '
             'authorized_keys/certificate/callback settings with a decoy '
             'destination; listening sockets and socket fds are counted '
             'before and after.',
        note='trusted: the kernel loopback; quiescence with real sockets is '
             'three quiet 5 ms polls, so a relay slower than that shows as '
             'inconclusive hang, never as data loss',
        design='3/C20'),
}

REASON_TODO = 'check not built yet in this session (see DESIGN.md section 3)'


def main():
    checks = []
    for pid in ALL:
        if pid not in CHECKS:
            continue
        c = CHECKS[pid]
        checks.append({
            'property_id': pid,
            'quick_cmd': f'./check {pid} --tier quick',
            'thorough_cmd': f'./check {pid} --tier thorough',
            'evidence_file': f'evidence/{pid}.json',
            'replay_cmd_template': f'./check {pid} --replay {{path}}',
            'engine': 'vf',
            'level_claimed': {'category': c['level'], 'text': c['text'],
                              'design_ref': c['design']},
            'level_note': c['note'],
            'technique': c['technique'],
        })

    manifest = {
        'version': 1,
        'setup_cmd': 'true',
        'hooks': {
            'guard': 'ASYNCSSH_VERIF',
            'enable': 'no source hooks: instrumentation is applied from the '
                      'harness (tunnel= wire, subclasses, attribute '
                      'wrapping, sys.monitoring, audit hooks)',
            'baseline_off_cmd': 'cd /repo && /venv/bin/python -m pytest -ra '
                                '-q -p no:cacheprovider --timeout=900 '
                                '--continue-on-collection-errors',
            'source_commits': [],
            'add_only': True,
        },
        'engines': [{'name': 'vf', 'path': 'vf/',
                     'serves_properties': sorted(CHECKS),
                     'kind_free_text': 'runtime monitoring framework: '
                     'virtual-time loop, in-memory wire + MITM, independent '
                     'RFC 4253 codec/tap/reference peer, sanitizer layer'}],
        'checks': checks,
        'not_applicable': [{'property_id': p, 'reason': REASON_TODO}
                           for p in ALL if p not in CHECKS],
        'notes': 'Technique family: runtime monitoring.  Verdicts: exit 0 '
                 'held on what was observed; exit 1 + VIOLATION line; exit 2 '
                 '+ INCONCLUSIVE line when a deciding monitor was never '
                 'reached.  known_findings.json lists recorded findings and '
                 'fixes.',
    }

    with open(os.path.join(ROOT, 'MANIFEST.json'), 'w') as f:
        json.dump(manifest, f, indent=1)
        f.write('\n')


if __name__ == '__main__':
    main()
