#!/usr/bin/env python3
"""Verify one seeded breaking change and run the checks against it.

usage: tools/seedverify.py <src dir with patch.diff demo.py README.md> <name>
           [--checks C07,C19] [--skip-baseline] [--tier quick]

Steps (all in a scratch worktree of /repo HEAD under /tmp/sv, removed at the end):
  1. demo.py on the clean tree must exit 0
  2. patch.diff must apply; demo.py must then exit 1
  3. the pinned baseline (161 tests) must still pass with the patch
  4. each listed check is run with VERIF_REPO=<worktree>; exit 1 + VIOLATION
     line = caught
The result is stored in /verif/seeded/<name>/ (patch.diff, demo.py, README.md,
meta.json).  Nothing is ever committed to /repo."""

import argparse
import json
import os
import re
import shutil
import subprocess
import sys
import time

VERIF = os.path.dirname(os.path.dirname(os.path.abspath(__file__)))
BASELINE = json.load(open('/root/.vp/BASELINE.json'))


def sh(cmd, **kw):
    return subprocess.run(cmd, shell=True, capture_output=True, text=True,
                          **kw)


def baseline(wt):
    import xml.etree.ElementTree as ET
    out = f'/tmp/sv/base-{os.getpid()}.xml'
    cmd = BASELINE['cmd'].replace('cd /repo', f'cd {wt}') \
        .replace('<file>', out)
    sh(cmd, timeout=3000)
    stable = set(BASELINE['stable_pass'])
    passed = set()
    try:
        for tc in ET.parse(out).getroot().iter('testcase'):
            if not any(ch.tag in ('failure', 'error', 'skipped')
                       for ch in tc):
                passed.add(tc.get('classname') + '::' + tc.get('name'))
    finally:
        if os.path.exists(out):
            os.unlink(out)
    return sorted(stable - passed)


def main():
    ap = argparse.ArgumentParser()
    ap.add_argument('src')
    ap.add_argument('name')
    ap.add_argument('--checks', default='')
    ap.add_argument('--skip-baseline', action='store_true')
    ap.add_argument('--tier', default='quick')
    ap.add_argument('--seed', default='0')
    args = ap.parse_args()

    os.makedirs('/tmp/sv', exist_ok=True)
    wt = f'/tmp/sv/{args.name}'
    sh(f'git -C /repo worktree remove --force {wt}')
    r = sh(f'git -C /repo worktree add --detach {wt} HEAD')
    if r.returncode:
        print(r.stderr)
        return 2

    meta = {'name': args.name, 'source': 'sub-agent given only the property '
            'text and a scratch worktree',
            'repo_head': sh('git -C /repo rev-parse --short HEAD')
            .stdout.strip()}
    dst = os.path.join(VERIF, 'seeded', args.name)
    prev = {}
    if os.path.exists(os.path.join(dst, 'meta.json')):
        prev = json.load(open(os.path.join(dst, 'meta.json')))

    try:
        demo_src = open(os.path.join(args.src, 'demo.py')).read()
        # the demo may name the author's worktree; point it at ours
        demo_txt = re.sub(r'/tmp/seed[2345]?/C\d\d', wt, demo_src)
        demo = f'/tmp/sv/{args.name}-demo.py'
        open(demo, 'w').write(demo_txt)
        env = dict(os.environ, PYTHONPATH=wt)

        def run_demo():
            try:
                r = subprocess.run(['/venv/bin/python', demo], env=env,
                                   cwd=wt, capture_output=True, text=True,
                                   timeout=180)
                return r.returncode, (r.stdout + r.stderr)[-600:]
            except subprocess.TimeoutExpired:
                return 'timeout', ''

        rc0, out0 = run_demo()
        meta['demo_clean_rc'] = rc0
        r = sh(f'git -C {wt} apply {os.path.join(args.src, "patch.diff")}')
        meta['applies'] = r.returncode == 0
        if r.returncode:
            meta['apply_error'] = r.stderr[-300:]
        rc1, out1 = run_demo()
        meta['demo_patched_rc'] = rc1
        meta['demo_patched_output'] = out1
        meta['files'] = sh(f'git -C {wt} diff --stat').stdout.strip() \
            .splitlines()[:-1]

        if args.skip_baseline and 'baseline_not_passing' in prev:
            meta['baseline_not_passing'] = prev['baseline_not_passing']
        elif not args.skip_baseline:
            meta['baseline_not_passing'] = baseline(wt)

        meta['valid'] = bool(meta['applies'] and rc0 == 0 and rc1 == 1 and
                             meta.get('baseline_not_passing') == [])

        results = dict(prev.get('checks', {}))
        for cid in [c for c in args.checks.split(',') if c]:
            t0 = time.time()
            try:
                r = subprocess.run(
                    [os.path.join(VERIF, 'check'), cid, '--tier', args.tier,
                     '--no-evidence', '--seed', args.seed],
                    env=dict(os.environ, VERIF_REPO=wt), cwd=VERIF,
                    capture_output=True, text=True, timeout=3600)
                out = r.stdout + r.stderr
                mechs = sorted(set(re.findall(r'violation mechanism=(\S+)',
                                              out)))
                results[cid] = {
                    'rc': r.returncode,
                    'caught': r.returncode == 1 and 'VIOLATION' in out,
                    'mechanisms': mechs[:8],
                    'violations': out.count('VIOLATION property='),
                    'tier': args.tier, 'seed': args.seed,
                    'secs': round(time.time() - t0, 1)}
            except subprocess.TimeoutExpired:
                results[cid] = {'rc': 'timeout', 'caught': False}
        meta['checks'] = results
        meta['caught_by'] = sorted(c for c, v in results.items()
                                   if v.get('caught'))

        os.makedirs(dst, exist_ok=True)
        for f in ('patch.diff', 'README.md'):
            if os.path.exists(os.path.join(args.src, f)):
                shutil.copy(os.path.join(args.src, f), dst)
        open(os.path.join(dst, 'demo.py'), 'w').write(demo_src)
        json.dump(meta, open(os.path.join(dst, 'meta.json'), 'w'), indent=1)
        print(json.dumps({k: meta[k] for k in (
            'name', 'valid', 'demo_clean_rc', 'demo_patched_rc',
            'caught_by')}), {c: (v['rc'], v.get('mechanisms'))
                             for c, v in results.items()})
    finally:
        sh(f'git -C /repo worktree remove --force {wt}')
        for f in (f'/tmp/sv/{args.name}-demo.py',):
            if os.path.exists(f):
                os.unlink(f)
    return 0


if __name__ == '__main__':
    sys.exit(main())
